------------------------ MODULE MC_ConservationExport ------------------------
EXTENDS MC_Conservation
ASSUME ExportSample(0)
=============================================================================
