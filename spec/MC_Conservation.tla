--------------------------- MODULE MC_Conservation ---------------------------
EXTENDS PyxelConservation, TLCExt, Json, IOUtils, SequencesExt
CONSTANTS MAXS, STRIDE
VARIABLE dummy
Q(n, e) == [n |-> n, e |-> e]
Dens == { Q(1, 2), Q(1, 1), Q(1, 3), Q(3, 3) }                  \* 1/4 1/2 1/8 3/8
Tfs == { Q(1, 1), Q(1, 0), Q(2, 0), Q(1, 2) }                   \* time step / time constant: 1/2 1 2 1/4
B == 262144
Pixels == { 0, B, 3 * B, 10 * B }
Trapped == { 0, B \div 2, B, 2 * B }
Caps(k) == { << >>, [i \in 1 .. k |-> B \div 4], [i \in 1 .. k |-> 4 * B] }
Min2(a, b) == IF a < b THEN a ELSE b
\* cases exported for replay: the whole grid up to two species, a sub-grid for three
CasesK(k, tr, dn, tf) ==
  { [pixel |-> p, trapped |-> t, dens |-> d, tf |-> f, caps |-> c] :
      p \in Pixels, t \in [1 .. k -> tr], d \in [1 .. k -> dn], f \in [1 .. k -> tf], c \in Caps(k) }
Cases(_z) ==
  UNION { CasesK(k, Trapped, Dens, Tfs) : k \in 1 .. Min2(MAXS, 2) }
  \cup (IF MAXS >= 3 THEN CasesK(3, {0, B}, {Q(1, 2), Q(1, 1)}, {Q(1, 0), Q(1, 2)}) ELSE {})
\* laws, for every case of the full grid (quantified, never materialised as a set)
PersistenceLaws ==
  \A k \in 1 .. MAXS :
    \A p \in Pixels, t \in [1 .. k -> Trapped], d \in [1 .. k -> Dens], f \in [1 .. k -> Tfs], c \in Caps(k) :
      LET out == PersistStep(p, t, d, f, c) IN
        Conserved(p, t, out) /\ NonNegative(out)
OtherLaws ==
  /\ \A x \in 0 .. 40, cap \in 0 .. 20 : FullWell(FullWell(x, cap), cap) = FullWell(x, cap) /\ FullWell(x, cap) <= cap
  /\ \A c \in 0 .. 16, d \in 0 .. 15, a \in 0 .. 15 :
       (d < c /\ a < c /\ c + d <= 16) => Sum(Kernel(c, d, a, 64)) = 64               \* weights sum to one
  /\ \A p \in 0 .. 9, ch \in 0 .. 9 : Collect(p, ch) - p = ch
ASSUME OtherLaws
ASSUME PersistenceLaws
MCSpec == dummy = 0 /\ [][FALSE]_dummy
RECURSIVE PowN(_, _)
PowN(b, k) == IF k = 0 THEN 1 ELSE b * PowN(b, k - 1)
RECURSIVE LawCountFrom(_)
LawCountFrom(k) == IF k > MAXS THEN 0
                   ELSE Cardinality(Pixels) * PowN(Cardinality(Trapped) * Cardinality(Dens) * Cardinality(Tfs), k) * 3
                        + LawCountFrom(k + 1)
ExportSample(_z) ==
  LET s == SetToSeq(Cases(0))
      n == Len(s) \div STRIDE
  IN  /\ PrintT(<<"LAWCASES", LawCountFrom(1)>>)
      /\ PrintT(<<"CFGSET", Len(s), "EXPORTED", n>>)
      /\ JsonSerialize(IOEnv.OUT_FILE, [k \in 1 .. n |-> s[k * STRIDE]])
=============================================================================
