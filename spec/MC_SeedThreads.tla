--------------------------- MODULE MC_SeedThreads ---------------------------
EXTENDS PyxelSeedThreads, TLCExt, Json, IOUtils
CONSTANTS STRIDE
MCInit == \E q \in BOOLEAN : TInitT([stream |-> U, seq |-> IF q THEN << "normal" >> ELSE << >>])
MCSpec == MCInit /\ [][TNextT]_tvars
Bound == Len(hist) <= MaxHist

\* export every STRIDE-th complete schedule (nobody inside, history full) for forced replay
ASSUME TLCSet(2, << >>) /\ TLCSet(4, 0)
Emit ==
  (Len(hist) = MaxHist /\ NobodyInside) =>
    /\ TLCSet(4, TLCGet(4) + 1)
    /\ (TLCGet(4) % STRIDE = 0 =>
          TLCSet(2, Append(TLCGet(2), [k \in 1 .. Len(hist) |-> [t |-> hist[k].t, op |-> hist[k].op, arg |-> hist[k].arg]])))
Both == Bound /\ Emit
Export ==
  /\ PrintT(<<"SCHEDULES", TLCGet(4)>>)
  /\ IF "OUT_FILE" \in DOMAIN IOEnv THEN JsonSerialize(IOEnv.OUT_FILE, TLCGet(2)) ELSE TRUE
=============================================================================
