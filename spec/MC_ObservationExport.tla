------------------------ MODULE MC_ObservationExport ------------------------
EXTENDS MC_Observation
ASSUME ExportSample(0)
=============================================================================
