------------------------------ MODULE MC_Outputs ------------------------------
EXTENDS PyxelOutputs, TLCExt, Json, IOUtils, SequencesExt
CONSTANTS STRIDE
Pre == { {}, { <<0, 0>> }, { <<0, 0>>, <<0, 1>> }, { <<0, 1>>, <<1, 0>> } }
MCInit == \E pre \in Pre : GInit(pre)
MCSpec == MCInit /\ [][GNext]_ovars /\ Fair
\* export: the schedule of every STRIDE-th terminal state (all simulations done)
ASSUME TLCSet(2, << >>) /\ TLCSet(4, 0)
Emit ==
  (\A p \in Procs : proc[p].pc = "done") =>
    /\ TLCSet(4, TLCGet(4) + 1)
    /\ (TLCGet(4) % STRIDE = 0 =>
          TLCSet(2, Append(TLCGet(2), [pre |-> SetToSeq(dirs0), sched |-> sched, clockmax |-> clock,
                                       own |-> [p \in Procs |-> proc[p].own]])))
Export ==
  /\ PrintT(<<"TERMINALS", TLCGet(4)>>)
  /\ IF "OUT_FILE" \in DOMAIN IOEnv THEN JsonSerialize(IOEnv.OUT_FILE, TLCGet(2)) ELSE TRUE
=============================================================================
