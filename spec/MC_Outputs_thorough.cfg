SPECIFICATION MCSpec
CONSTANTS
  Procs = {1, 2, 3}
  MaxClock = 1
  Files = {"a"}
  STRIDE = 997
INVARIANT C19_FreshDir
INVARIANT C19_Distinct
INVARIANT C19_Attributed
PROPERTY C19_Terminates
CONSTRAINT Emit
POSTCONDITION Export
CHECK_DEADLOCK FALSE
