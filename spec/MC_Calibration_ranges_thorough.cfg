SPECIFICATION MCSpec
CONSTANTS
  FAMILY = "ranges"
  MAXV = 3
  STRIDE = 100
INVARIANT C11_CheckedFirst
INVARIANT C10_InBounds
INVARIANT C10_Layout
CHECK_DEADLOCK FALSE
