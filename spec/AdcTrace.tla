------------------------------- MODULE AdcTrace -------------------------------
(* Validation of digitised frames against PyxelAdc.  Each trace is one record: *)
(*  kind "simple": [b, lo, hi, vs, codes, width]   integer voltages, exact      *)
(*  kind "sar"   : [b, vmax, vs, codes, noisy, width]                           *)
(*  kind "law"   : [b, codes (16-bit limbs, most significant first, sorted by   *)
(*                 voltage), nlow, nhigh, width, noisyeq]  - resolutions whose  *)
(*                 codes exceed TLC's integers: only the laws are checked        *)
EXTENDS PyxelAdc, TLCExt, Json, IOUtils

Traces == JsonDeserialize(IOEnv.TRACE_FILE)
VARIABLES tid, ok
tvars == << avars, tid, ok >>
Tr == Traces[tid]

SarCode(vv, bb, mx) == IF vv < 0 THEN 0 ELSE IF vv >= mx THEN FullScale(bb) ELSE (vv * Pow2(bb)) \div mx

\* limbs: sequences of 4 integers 0..65535, most significant first
RECURSIVE LexLE(_, _)
LexLE(x, y) == IF x = << >> THEN TRUE
               ELSE IF Head(x) < Head(y) THEN TRUE
               ELSE IF Head(x) > Head(y) THEN FALSE
               ELSE LexLE(Tail(x), Tail(y))
LimbOfFS(bb, i) ==        \* i-th limb (0 = least significant) of 2^bb - 1
  IF bb >= 16 * (i + 1) THEN 65535 ELSE IF bb > 16 * i THEN Pow2(bb - 16 * i) - 1 ELSE 0
FSLimbs(bb) == << LimbOfFS(bb, 3), LimbOfFS(bb, 2), LimbOfFS(bb, 1), LimbOfFS(bb, 0) >>
Zero4 == << 0, 0, 0, 0 >>

Good ==
  CASE Tr.kind = "simple" ->
         /\ Tr.width = Width(Tr.b)
         /\ \A k \in 1 .. Len(Tr.vs) : Tr.codes[k] = Quantise(Tr.vs[k], Tr.lo, Tr.hi, Tr.b)
    [] Tr.kind = "sar" ->
         /\ Tr.width = Width(Tr.b)
         /\ \A k \in 1 .. Len(Tr.vs) : Tr.codes[k] = SarCode(Tr.vs[k], Tr.b, Tr.vmax)
         /\ Tr.noisy = Tr.codes                     \* zero noise reproduces the converter exactly
    [] Tr.kind = "law" ->
         LET n == Len(Tr.codes) IN
         /\ Tr.width >= Tr.b /\ Tr.width = Width(Tr.b)
         /\ \A k \in 1 .. n : LexLE(Tr.codes[k], FSLimbs(Tr.b))                  \* 0 .. 2^b - 1
         /\ \A k \in 1 .. n - 1 : LexLE(Tr.codes[k], Tr.codes[k + 1])            \* non-decreasing in the voltage
         /\ \A k \in 1 .. Tr.nlow : Tr.codes[k] = Zero4                          \* at or below the minimum: 0
         /\ \A k \in (n - Tr.nhigh + 1) .. n : Tr.codes[k] = FSLimbs(Tr.b)       \* at or above the maximum: full scale
         /\ Tr.noisyeq

TInit == tid \in 1 .. Len(Traces) /\ ok = FALSE /\ AInitWith(4, 16, 0)
TJudge == ~ ok /\ Good /\ ok' = TRUE /\ UNCHANGED << avars, tid >>
TSpec == TInit /\ [][TJudge]_tvars

ASSUME TLCSet(1, {}) /\ TLCSet(3, [t \in 1 .. Len(Traces) |-> 0])
Mark == (ok => TLCSet(1, TLCGet(1) \cup {tid}))
Verdict ==
  /\ PrintT(<<"ACCEPTED", TLCGet(1)>>)
  /\ PrintT(<<"PROGRESS", TLCGet(3)>>)
=============================================================================
