SPECIFICATION OneSpec
CONSTANTS
  FAMILY = "ranges"
  MAXV = 2
  STRIDE = 20
CHECK_DEADLOCK FALSE
