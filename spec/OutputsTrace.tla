----------------------------- MODULE OutputsTrace -----------------------------
(* Batch validation of recorded output-directory histories and of reported     *)
(* output files against PyxelOutputs.                                          *)
(* kind "sched": a schedule of system calls was forced on real threads running *)
(*   create_output_directory; events tick / clock(p, stamp) / mkdir(p, stamp,  *)
(*   n, ok) / own(p, stamp, n), names parsed from the real directory names.    *)
(* kind "files": unordered facts about simulations that ran with outputs:      *)
(*   predir(name) existing before; own(p, name); request(p, run, bucket, fmt); *)
(*   reported(p, run, bucket, fmt, path, indir, same) - `same`: the file holds *)
(*   exactly that run's bucket; prefile(path, same) - a pre-existing file      *)
(*   still holds what it held.                                                 *)
EXTENDS PyxelOutputs, TLCExt, Json, IOUtils, SequencesExt

Traces == JsonDeserialize(IOEnv.TRACE_FILE)
VARIABLES tid, l, pre, taken, reqs, reps
tvars == << ovars, tid, l, pre, taken, reqs, reps >>
Tr == Traces[tid]
Ev == Tr.events[l]
Is(e) == l <= Len(Tr.events) /\ Tr.events[l].e = e
SeqToSet(s) == { s[k] : k \in 1 .. Len(s) }

TInit ==
  /\ tid \in 1 .. Len(Traces)
  /\ l = 1 /\ pre = {} /\ taken = {} /\ reqs = {} /\ reps = {}
  /\ GInit(SeqToSet(Traces[tid].pre))

Step == l' = l + 1 /\ UNCHANGED tid
KeepF == UNCHANGED << pre, taken, reqs, reps >>

TTick == Is("tick") /\ Tick /\ KeepF /\ Step
TClock == Is("clock") /\ ReadClock(Ev.p) /\ proc'[Ev.p].stamp = Ev.stamp /\ KeepF /\ Step
TMkdir ==
  /\ Is("mkdir")
  /\ << proc[Ev.p].stamp, proc[Ev.p].n >> = << Ev.stamp, Ev.n >>       \* the name the code tried
  /\ TryMkdir(Ev.p)
  /\ Ev.ok = (proc'[Ev.p].pc = "own")                                  \* atomic test-and-create
  /\ KeepF /\ Step
TOwn ==
  /\ Is("own")
  /\ proc[Ev.p].own = << Ev.stamp, Ev.n >>
  /\ UNCHANGED ovars /\ KeepF /\ Step

\* ---- unordered facts (strings)
TPreDir == Is("predir") /\ pre' = pre \cup {Ev.name} /\ UNCHANGED << ovars, taken, reqs, reps >> /\ Step
TOwnName ==
  /\ Is("ownname")
  /\ Ev.name \notin pre                      \* freshly created
  /\ Ev.name \notin taken                    \* nobody else's
  /\ taken' = taken \cup {Ev.name}
  /\ UNCHANGED << ovars, pre, reqs, reps >> /\ Step
TRequest == Is("request") /\ reqs' = reqs \cup {<< Ev.p, Ev.run, Ev.bucket, Ev.fmt >>}
            /\ UNCHANGED << ovars, pre, taken, reps >> /\ Step
TReported ==
  /\ Is("reported")
  /\ << Ev.p, Ev.run, Ev.bucket, Ev.fmt >> \in reqs                   \* only what was requested
  /\ ~ \E r \in reps : r[1] = << Ev.p, Ev.run, Ev.bucket, Ev.fmt >>    \* exactly one file per request
  /\ ~ \E r \in reps : r[2] = Ev.path                                  \* never two requests in one file
  /\ Ev.indir                                                          \* inside the simulation's own directory
  /\ Ev.exists /\ Ev.same                                              \* holds exactly that run's bucket
  /\ reps' = reps \cup { << << Ev.p, Ev.run, Ev.bucket, Ev.fmt >>, Ev.path >> }
  /\ UNCHANGED << ovars, pre, taken, reqs >> /\ Step
TPreFile == Is("prefile") /\ Ev.same /\ UNCHANGED ovars /\ KeepF /\ Step
TEnd ==
  /\ Is("end")
  /\ \A q \in reqs : \E r \in reps : r[1] = q                           \* every request has its file
  /\ UNCHANGED ovars /\ KeepF /\ Step

Diag ==
  /\ "DIAG" \in DOMAIN IOEnv
  /\ l <= Len(Tr.events)
  /\ ~ ENABLED (TTick \/ TClock \/ TMkdir \/ TOwn \/ TPreDir \/ TOwnName \/ TRequest \/ TReported \/ TPreFile \/ TEnd)
  /\ PrintT(<<"EXPECTED", tid, l, ToJson([procs |-> [p \in Procs |-> proc[p]], dirs |-> SetToSeq(dirs),
                                             missing |-> SetToSeq({ q \in reqs : ~ \E r \in reps : r[1] = q })])>>)
  /\ FALSE /\ UNCHANGED tvars

TNext == TTick \/ TClock \/ TMkdir \/ TOwn \/ TPreDir \/ TOwnName \/ TRequest \/ TReported \/ TPreFile \/ TEnd \/ Diag
TSpec == TInit /\ [][TNext]_tvars
Accepted == l = Len(Tr.events) + 1

ASSUME TLCSet(1, {}) /\ TLCSet(3, [t \in 1 .. Len(Traces) |-> 0])
Mark ==
  /\ (Accepted => TLCSet(1, TLCGet(1) \cup {tid}))
  /\ (l > TLCGet(3)[tid] => TLCSet(3, [TLCGet(3) EXCEPT ![tid] = l]))
Verdict ==
  /\ PrintT(<<"ACCEPTED", TLCGet(1)>>)
  /\ PrintT(<<"PROGRESS", TLCGet(3)>>)
=============================================================================
