---------------------------- MODULE MC_Pipeline ----------------------------
(* Model-checking instances of PyxelPipeline: finite families of           *)
(* configurations chosen in Init.  FAMILY selects the family, the other    *)
(* constants bound it.  Terminal configurations are exported as JSON for   *)
(* replay against the implementation (every STRIDE-th one).                *)
EXTENDS PyxelPipeline, TLCExt, Json, IOUtils, SequencesExt

CONSTANTS FAMILY, MAXSTEPS, MAXTICK, MAXLEN, STRIDE

Mod(name, en, args, kind, b, base, mask) ==
  [name |-> name, enabled |-> en, args |-> args, kind |-> kind, b |-> b, base |-> base, mask |-> mask]

NoPrior == [x \in Buckets |-> EMPTY]
DirtyPrior == [photon |-> 41, charge |-> 42, pixel |-> 43, signal |-> 44, image |-> 45, scene |-> 46, data |-> 47]

AllMask == -1
ImgWriter == Mod("img", TRUE, "i", "set", "image", 60, AllMask)

TimesOf(n) == [k \in 1 .. n |-> 3 * k - 1]       \* 2, 5, 8, ...

Stored0 == [photon |-> 31, charge |-> 32, pixel |-> 33, signal |-> 34, image |-> 35, scene |-> 36, data |-> 37]
Cfg(pipe, times, start, nd, prior) ==
  [pipe |-> pipe, times |-> times, start |-> start, nd |-> nd, prior |-> prior, imgdt |-> "uint16", stored |-> Stored0]

\* ---- family "subsets": every subset of the ten groups, one observer each
SubsetPipe(S, withImg) ==
  [k \in 1 .. NG |->
     (IF k \in S THEN << Mod("m", TRUE, "a", "obs", "photon", 0, 0) >> ELSE << >>)
     \o (IF withImg /\ k = 9 THEN << ImgWriter >> ELSE << >>)]

FamSubsets(_z) ==
  { Cfg(SubsetPipe(S, n > 1), TimesOf(n), 1, FALSE, NoPrior) : S \in SUBSET (1 .. NG), n \in 1 .. MAXSTEPS }

\* ---- family "pairs": every pair of groups, 0..2 models each, every enabled pattern
Shapes == { << >>, <<TRUE>>, <<FALSE>>, <<TRUE, TRUE>>, <<TRUE, FALSE>>, <<FALSE, TRUE>>, <<FALSE, FALSE>> }
ShapeModels(sh, tag, kind, b, base) ==
  [j \in 1 .. Len(sh) |-> Mod(tag \o (IF j = 1 THEN "1" ELSE "2"), sh[j], tag, kind, b, base + 10 * j, AllMask)]

PairPipe(a, b, sa, sb, withImg) ==
  [k \in 1 .. NG |->
     (CASE k = a -> ShapeModels(sa, "p", "set", "photon", 1)
        [] k = b -> ShapeModels(sb, "q", "add", "pixel", 2)
        [] OTHER -> << >>)
     \o (IF withImg /\ k = 9 THEN << ImgWriter >> ELSE << >>)]

FamPairs(_z) ==
  { Cfg(PairPipe(a, b, sa, sb, n > 1), TimesOf(n), 0, nd, NoPrior) :
      a \in 1 .. NG, b \in 1 .. NG, sa \in Shapes, sb \in Shapes, n \in 1 .. MAXSTEPS, nd \in BOOLEAN }

\* ---- family "sched": all schedules (valid and invalid), write patterns, priors
SeqsUpTo(S, n) == UNION { [1 .. k -> S] : k \in 0 .. n }

SchedPipe(m1, m2, m3, ck) ==
  [k \in 1 .. NG |->
     CASE k = 2  -> << Mod("w1", TRUE, "x", "set", "photon", 5, m1) >>
       [] k = 4  -> << Mod("w2", TRUE, "y", ck, "charge", 3, m2) >>
       [] k = 5  -> << Mod("w3", TRUE, "z", "add", "pixel", 7, m3), Mod("w4", TRUE, "s", "set", "signal", 20, m1) >>
       [] k = 9  -> << ImgWriter >>
       [] k = 10 -> << Mod("last", TRUE, "o", "obs", "photon", 0, 0) >>
       [] OTHER  -> << >> ]

FamSched(_z) ==
  { Cfg(SchedPipe(m1, m2, m3, ck), ts, st, nd, pr) :
      ts \in SeqsUpTo(0 .. MAXTICK, MAXLEN), st \in {-1, 0, 2}, nd \in BOOLEAN,
      m1 \in {0, 1, 5, 7}, m2 \in {0, 2, 7}, m3 \in {0, 3, 6, 7}, pr \in {NoPrior, DirtyPrior},
      ck \in {"add", "padd"} }

\* ---- family "writers": result record: every bucket written or not per step, scene/data
WritersPipe(mp, mc, mx, ms, mi, msc, md) ==
  [k \in 1 .. NG |->
     CASE k = 1  -> << Mod("sc", TRUE, "a", "set", "scene", 70, msc) >>
       [] k = 2  -> << Mod("ph", TRUE, "b", "set", "photon", 10, mp) >>
       [] k = 4  -> << Mod("ch", TRUE, "c", "add", "charge", 20, mc), Mod("cp", TRUE, "h", "padd", "charge", 25, mx) >>
       [] k = 5  -> << Mod("px", TRUE, "d", "add", "pixel", 30, mx) >>
       [] k = 7  -> << Mod("sg", TRUE, "e", "set", "signal", 40, ms) >>
       [] k = 9  -> << Mod("im", TRUE, "f", "set", "image", 50, mi) >>
       [] k = 10 -> << Mod("dt", TRUE, "g", "set", "data", 80, md), Mod("last", TRUE, "o", "obs", "photon", 0, 0) >>
       [] OTHER  -> << >> ]

Masks(n) == 0 .. (2 ^ n - 1)
FamWriters(_z) ==
  { Cfg(WritersPipe(mp, mc, mx, ms, mi, msc, md), TimesOf(n), 1, nd, DirtyPrior) :
      n \in 1 .. MAXSTEPS, nd \in BOOLEAN,
      mp \in {0, 1, 2, 3, 7}, mc \in {0, 7}, mx \in {0, 2, 7}, ms \in {0, 1, 6, 7}, mi \in {0, 1, 6, 7},
      msc \in {0, 1, 4, 7}, md \in {0, 1, 2} }

\* ---- family "faults": a fault at every (step, position) of small pipelines
FaultPipe(pos, at, exc) ==
  LET mk(p, kind, b, base) ==
        IF p = pos THEN Mod("f" \o ToString(p), TRUE, "boom-" \o ToString(p) \o "-" \o ToString(at), "raise", exc, 0, 2 ^ at)
                   ELSE Mod("f" \o ToString(p), TRUE, "k", kind, b, base, AllMask)
  IN [k \in 1 .. NG |->
     CASE k = 2  -> << mk(1, "set", "photon", 10) >>
       [] k = 5  -> << mk(2, "add", "pixel", 20), mk(3, "obs", "photon", 0) >>
       [] k = 9  -> << ImgWriter, mk(4, "obs", "photon", 0) >>
       [] OTHER  -> << >> ]

FamFaults(_z) ==
  { Cfg(FaultPipe(pos, at, exc), TimesOf(n), 0, nd, NoPrior) :
      pos \in 0 .. 4, at \in 0 .. MAXSTEPS - 1, n \in 1 .. MAXSTEPS, nd \in BOOLEAN,
      exc \in {"ValueError", "KeyError", "ZeroDivisionError", "ProbeError", "StopIteration"} }

\* ---- family "flux": every composition of an interval into readouts, flux models
Compositions(total, maxparts) ==   \* strictly increasing sequences ending at `total`, at most maxparts long
  { SetToSortSeq(S \cup {total}, LAMBDA x, y : x < y) :
      S \in { sub \in SUBSET (1 .. total - 1) : Cardinality(sub) < maxparts } }

FluxPipe(useIll, useChg, q) ==
  [k \in 1 .. NG |->
     CASE k = 2  -> << Mod("ill", TRUE, "a", "flux", "photon", IF useIll THEN 6 ELSE 0, AllMask) >>   \* conversion needs photons
       [] k = 4  -> << Mod("conv", TRUE, "b", "conv", "charge", q, AllMask), Mod("chg", useChg, "c", "flux", "charge", 4, AllMask) >>
       [] k = 5  -> << Mod("coll", TRUE, "d", "collect", "pixel", 0, AllMask) >>
       [] k = 9  -> << ImgWriter >>
       [] OTHER  -> << >> ]

FamFlux(_z) ==
  { Cfg(FluxPipe(ui, uc, q), [k \in 1 .. Len(s) |-> s[k] + st], st, nd, NoPrior) :
      s \in Compositions(MAXTICK, MAXLEN), st \in {0, 1, 3}, nd \in BOOLEAN,
      ui \in BOOLEAN, uc \in BOOLEAN, q \in {1, 2} }   \* q/2 = quantum efficiency 0.5 or 1

\* (operators with a parameter are not pre-evaluated by TLC at start-up)
\* ---- family "storage": the load-detector model at every position of a small pipeline (C18)
StoragePipe(pos, mask, full) ==
  LET ld == Mod("load", TRUE, "l", "loaddet", "photon", 0, mask) IN
  [k \in 1 .. NG |->
     CASE k = 2  -> (IF pos = 1 THEN << ld >> ELSE << >>) \o << Mod("w1", TRUE, "x", "set", "photon", 5, AllMask) >>
       [] k = 5  -> (IF pos = 2 THEN << ld >> ELSE << >>) \o << Mod("w2", TRUE, "y", "add", "pixel", 7, AllMask) >>
                    \o (IF pos = 3 THEN << ld >> ELSE << >>)
       [] k = 9  -> << ImgWriter >> \o (IF pos = 4 THEN << ld >> ELSE << >>)
       [] k = 10 -> << Mod("last", TRUE, "o", "obs", "photon", 0, 0) >> \o (IF pos = 5 THEN << ld >> ELSE << >>)
       [] OTHER  -> << >> ]
PartialStored == [Stored0 EXCEPT !["photon"] = EMPTY, !["signal"] = EMPTY, !["scene"] = EMPTY]
\* a file whose detector carries no processed data (an empty tree) and no image: what the running detector
\* held in those buckets must go as well
NoDataStored == [Stored0 EXCEPT !["data"] = EMPTY, !["image"] = EMPTY]
FamStorage(_z) ==
  { [Cfg(StoragePipe(pos, mask, TRUE), TimesOf(n), 0, nd, NoPrior) EXCEPT !.stored = st] :
      pos \in 1 .. 5, mask \in {-1}, n \in 1 .. MAXSTEPS, nd \in BOOLEAN, st \in {Stored0, PartialStored, NoDataStored} }

\* ---- family "opaque": models of unknown effect (anything in any bucket, or a failure)
OpaquePipe(sa, sb) ==
  [k \in 1 .. NG |->
     CASE k = 2  -> ShapeModels(sa, "u", "opaque", "photon", 0)
       [] k = 5  -> ShapeModels(sb, "v", "opaque", "pixel", 0)
       [] OTHER  -> << >> ]
FamOpaque(_z) ==
  { Cfg(OpaquePipe(sa, sb), TimesOf(n), st, nd, NoPrior) :
      sa \in {<<TRUE>>, <<FALSE, TRUE>>}, sb \in {<< >>, <<TRUE>>}, n \in 1 .. MAXSTEPS, st \in {0, 1}, nd \in BOOLEAN }
\* what an opaque model may leave behind: pixel, charge and image vary, the rest stays
OpaqueAfter(b) ==
  { [b EXCEPT !["charge"] = ch, !["pixel"] = px, !["image"] = im] :
      ch \in {0, 4}, px \in {0, 5}, im \in {EMPTY, 7} }

\* ---- family "session": runs separated by reconfiguration of the same objects
SessionPipe(sa, sb) ==
  [k \in 1 .. NG |->
     CASE k = 2  -> ShapeModels(sa, "p", "set", "photon", 1)
       [] k = 5  -> ShapeModels(sb, "q", "add", "pixel", 2)
       [] k = 9  -> << ImgWriter >>
       [] OTHER  -> << >> ]
FamSession(_z) ==
  { Cfg(SessionPipe(sa, sb), TimesOf(n), 0, nd, NoPrior) :
      sa \in {<<TRUE, FALSE>>}, sb \in {<<TRUE>>, <<FALSE, TRUE>>}, n \in 1 .. MAXSTEPS, nd \in BOOLEAN }

CfgSet(_z) ==
  CASE FAMILY = "opaque" -> FamOpaque(0)
    [] FAMILY = "session" -> FamSession(0)
    [] FAMILY = "subsets" -> FamSubsets(0)
    [] FAMILY = "pairs"   -> FamPairs(0)
    [] FAMILY = "sched"   -> FamSched(0)
    [] FAMILY = "writers" -> FamWriters(0)
    [] FAMILY = "faults"  -> FamFaults(0)
    [] FAMILY = "flux"    -> FamFlux(0)
    [] FAMILY = "storage" -> FamStorage(0)

MCInit == \E c \in CfgSet(0) : InitWith(c)
AtOpaque == pc = "run" /\ g <= NG /\ (IF m <= Len(cfg.pipe[g]) THEN cfg.pipe[g][m].kind = "opaque" ELSE FALSE)
MCOpaqueRun == AtOpaque /\ \E after \in OpaqueAfter(bucket) : RunOpaque(after)
MCOpaqueRaise == AtOpaque /\ OpaqueRaise
MCNext == Next \/ MCOpaqueRun \/ MCOpaqueRaise
IsSession == FAMILY = "session"
MCRestart == IsSession /\ Restart
MCToggle  == IsSession /\ \E gg \in {2, 5}, mm \in 1 .. 2 : Toggle(gg, mm)
MCSetArgs == IsSession /\ \E gg \in {2}, a \in {"p", "r"} : SetArgs(gg, 1, a)
MCResched == IsSession /\ \E n \in 1 .. MAXSTEPS, nd \in BOOLEAN : Reschedule(TimesOf(n), 0, nd)
\* sessions of the storage family: the detector file is rewritten between runs
MCRewrite == FAMILY = "storage" /\ (Restart \/ \E st \in {Stored0, PartialStored, NoDataStored} : Rewrite(st))
MCSpec == MCInit /\ [][MCNext \/ MCRestart \/ MCToggle \/ MCSetArgs \/ MCResched \/ MCRewrite]_vars

\* Flux instance: with start offset the times are shifted so that T(k) - start
\* is the composition; the invariants of C17 apply to this family only.
C17_NonDestructiveF == FAMILY = "flux" => C17_NonDestructive
C17_DestructiveF    == FAMILY = "flux" => C17_Destructive

\* ---- export of a sample of the configurations for replay against the code
\* (evaluated by MC_PipelineExport): every STRIDE-th element of CfgSet in
\* TLC's normalised order.
ExportSample(_z) ==
  LET s == SetToSeq(CfgSet(0))
      n == Len(s) \div STRIDE
  IN  /\ PrintT(<<"CFGSET", Len(s), "EXPORTED", n>>)
      /\ JsonSerialize(IOEnv.OUT_FILE, [k \in 1 .. n |-> s[k * STRIDE]])
OneInit == InitWith(CHOOSE c \in CfgSet(0) : TRUE)
OneSpec == OneInit /\ [][FALSE]_vars
=============================================================================
