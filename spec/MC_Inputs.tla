------------------------------- MODULE MC_Inputs -------------------------------
EXTENDS PyxelInputs, TLCExt, Json, IOUtils, SequencesExt
CONSTANTS MAXN, MAXOFF, MAXLEN, STRIDE
Paths == {"a", "b"}
MCNext == Len(loads) < MAXLEN /\ \E p \in Paths : (WriteFile(p) /\ disk[p] < 3) \/ Load(p)
MCSpec == IInit(Paths) /\ [][MCNext]_ivars

\* placement laws, for every input shape, detector shape and offset of the bounded space
PlacementLaws ==
  \A h \in 1 .. MAXN, w \in 1 .. MAXN, H \in 1 .. MAXN, W \in 1 .. MAXN :
    \A oy \in -MAXOFF .. MAXOFF, ox \in -MAXOFF .. MAXOFF :
      LET out == FitInto(h, w, H, W, oy, ox) IN
        \* every input cell that lands on the detector appears exactly once, nothing else does
        /\ \A y \in 1 .. H, x \in 1 .. W :
             out[y][x] # 0 => \E r \in 0 .. h - 1, c \in 0 .. w - 1 :
                                 out[y][x] = InCell(h, w, r, c) /\ y - 1 = r + oy /\ x - 1 = c + ox
        /\ Overlaps(h, w, H, W, oy, ox) <=> \E y \in 1 .. H, x \in 1 .. W : out[y][x] # 0
ASSUME PlacementLaws

Aligns == {"center", "top_left", "top_right", "bottom_left", "bottom_right"}
Cases(_z) ==
  { [h |-> h, w |-> w, H |-> H, W |-> W, oy |-> oy, ox |-> ox, align |-> ""] :
      h \in 1 .. MAXN, w \in 1 .. MAXN, H \in 1 .. MAXN, W \in 1 .. MAXN, oy \in -MAXOFF .. MAXOFF, ox \in -MAXOFF .. MAXOFF }
  \cup { [h |-> h, w |-> w, H |-> H, W |-> W, oy |-> 0, ox |-> 0, align |-> a] :
      h \in 1 .. MAXN + 1, w \in 1 .. MAXN + 1, H \in 1 .. MAXN + 1, W \in 1 .. MAXN + 1, a \in Aligns }
ExportSample(_z) ==
  LET s == SetToSeq(Cases(0))
      n == Len(s) \div STRIDE
  IN  /\ PrintT(<<"CFGSET", Len(s), "EXPORTED", n>>)
      /\ JsonSerialize(IOEnv.OUT_FILE, [k \in 1 .. n |-> s[k * STRIDE]])
=============================================================================
