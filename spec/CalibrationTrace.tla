------------------------- MODULE CalibrationTrace -------------------------
(* Batch validation of calibration behaviour against PyxelCalibration.       *)
(* Two kinds of traces:                                                      *)
(*  kind "eval"  - direct fitness evaluations at integer decision vectors    *)
(*                 (events build / eval): values compared exactly with the   *)
(*                 specification's Assign, ToParams and Fitness;             *)
(*  kind "calib" - a complete optimisation (events build / cand / champ /    *)
(*                 done): real-valued decisions scaled by 10^6; the          *)
(*                 specification checks box, boundaries, layout, that        *)
(*                 reported = applied, and the champion history; relations   *)
(*                 that need real arithmetic (10^x, re-simulated fitness)    *)
(*                 arrive as flags computed by the harness.                  *)
EXTENDS PyxelCalibration, TLCExt, Json, IOUtils

Traces == JsonDeserialize(IOEnv.TRACE_FILE)
VARIABLES tid, l, cands, best
tvars == << kvars, tid, l, cands, best >>
Tr == Traces[tid]
Ev == Tr.events[l]
Is(e) == l <= Len(Tr.events) /\ Tr.events[l].e = e

TInit == tid \in 1 .. Len(Traces) /\ l = 1 /\ cands = {} /\ best = << >> /\ KInitWith(Traces[tid].kcfg)

Step == l' = l + 1 /\ UNCHANGED tid

TBuild ==
  /\ Is("build")
  /\ Check
  /\ phase' = (IF Ev.out = "ok" THEN "ready" ELSE "rejected")
  /\ UNCHANGED << cands, best >> /\ Step

Has(f) == f \in DOMAIN Ev
\* fields the recording left out are not compared (C10 looks at parameters, C11 at fitness)
TEval ==
  /\ Is("eval")
  /\ Eval(Ev.x)
  /\ LET e == evals'[Len(evals')] IN
       /\ (Has("applied") => e.applied = Ev.applied)
       /\ (Has("converted") => ToParams(Ev.x) = Ev.converted)
       /\ (Has("fitness") => e.fitness = Ev.fitness)
       /\ (Has("ncalls") => Ev.ncalls = Len(kcfg.pairs))      \* one simulation per target/input pair
  /\ UNCHANGED << cands, best >> /\ Step

\* the box the optimiser is given (get_bounds)
TBounds ==
  /\ Is("bounds")
  /\ phase = "ready"
  /\ Ev.lower = Lower /\ Ev.upper = Upper
  /\ UNCHANGED << kvars, cands, best >> /\ Step

\* ---- complete calibrations (scaled reals)
SLower == [c \in 1 .. Dim |-> kcfg.vars[VarOf(c)].slo[c - Offset(VarOf(c))]]
SUpper == [c \in 1 .. Dim |-> kcfg.vars[VarOf(c)].shi[c - Offset(VarOf(c))]]
PLower == [c \in 1 .. Dim |-> kcfg.vars[VarOf(c)].plo[c - Offset(VarOf(c))]]
PUpper == [c \in 1 .. Dim |-> kcfg.vars[VarOf(c)].phi[c - Offset(VarOf(c))]]
SliceOf(params, j) == SubSeq(params, Offset(j) + 1, Offset(j) + kcfg.vars[j].arity)

CandOK(x, params) ==
  /\ Len(x) = Dim /\ Len(params) = Dim
  /\ \A c \in 1 .. Dim : SLower[c] <= x[c] /\ x[c] <= SUpper[c]            \* inside the box
  /\ \A c \in 1 .. Dim : PLower[c] <= params[c] /\ params[c] <= PUpper[c]  \* inside the boundaries
  /\ \A c \in 1 .. Dim : kcfg.vars[VarOf(c)].log \/ params[c] = x[c]       \* linear: value = component

TCand ==
  /\ Is("cand")
  /\ phase = "ready"
  /\ CandOK(Ev.x, Ev.params)
  /\ Ev.convok                                   \* logarithmic: value = 10^component (checked in floats)
  /\ Len(Ev.applied) = NV
  /\ \A j \in 1 .. NV : Ev.applied[j] = SliceOf(Ev.params, j)    \* each key got its own slice
  /\ cands' = cands \cup {[x |-> Ev.x, params |-> Ev.params]}
  /\ UNCHANGED << kvars, best >> /\ Step

TChamp ==
  /\ Is("champ")
  /\ phase = "ready"
  /\ CandOK(Ev.x, Ev.params)
  /\ Ev.convok
  /\ [x |-> Ev.x, params |-> Ev.params] \in cands        \* reported = what was applied for that decision
  /\ Ev.resim                                            \* re-simulating reproduces fitness and data
  /\ LET prev == IF Ev.island \in DOMAIN best THEN best[Ev.island] ELSE << >> IN
       /\ (prev # << >> /\ Ev.kind = "champion") => Ev.fitness <= prev[Len(prev)]   \* never worse than before
       /\ best' = IF Ev.kind = "champion" THEN (Ev.island :> Append(prev, Ev.fitness)) @@ best ELSE best
  /\ UNCHANGED << kvars, cands >> /\ Step

\* fault injection (C09): Tr.fault = number of model calls after which the model raises, -1 = never
TDone ==
  /\ Is("done") /\ phase = "ready"
  /\ IF Tr.fault = -1 THEN TRUE ELSE Ev.ncalls <= Tr.fault     \* a result only if the fault was never reached
  /\ UNCHANGED << kvars, cands, best >> /\ Step
TFailed ==
  /\ Is("failed") /\ phase = "ready"
  /\ Tr.fault >= 0
  /\ Ev.msgok
  /\ UNCHANGED << kvars, cands, best >> /\ Step

TRerun ==
  /\ Is("rerun")
  /\ Rerun
  /\ cands' = {} /\ best' = << >>
  /\ Step

Diag ==
  /\ "DIAG" \in DOMAIN IOEnv
  /\ l <= Len(Tr.events)
  /\ ~ ENABLED (TBuild \/ TEval \/ TBounds \/ TCand \/ TChamp \/ TDone \/ TFailed \/ TRerun)
  /\ PrintT(<<"EXPECTED", tid, l,
              ToJson([phase |-> phase, rangesok |-> RangesOK,
                      expect |-> IF Ev.e = "eval" /\ phase = "ready" /\ Len(Ev.x) = Dim
                                   THEN [applied |-> Assign(Ev.x), fitness |-> Fitness(Ev.x), inbox |-> InBox(Ev.x)]
                                   ELSE [applied |-> << >>, fitness |-> 0, inbox |-> TRUE],
                      best |-> [i \in DOMAIN best |-> best[i]]])>>)
  /\ FALSE /\ UNCHANGED tvars

TNext == TBuild \/ TEval \/ TBounds \/ TCand \/ TChamp \/ TDone \/ TFailed \/ TRerun \/ Diag
TSpec == TInit /\ [][TNext]_tvars
Accepted == l = Len(Tr.events) + 1

ASSUME TLCSet(1, {}) /\ TLCSet(3, [t \in 1 .. Len(Traces) |-> 0])
Mark ==
  /\ (Accepted => TLCSet(1, TLCGet(1) \cup {tid}))
  /\ (l > TLCGet(3)[tid] => TLCSet(3, [TLCGet(3) EXCEPT ![tid] = l]))
Verdict ==
  /\ PrintT(<<"ACCEPTED", TLCGet(1)>>)
  /\ PrintT(<<"PROGRESS", TLCGet(3)>>)
=============================================================================
