---------------------------- MODULE IndSeedLock ----------------------------
(* Unbounded safety of the seeded-block lock of PyxelSeedThreads, discharged *)
(* by Apalache as an inductive invariant (any number of nested blocks, any   *)
(* number of draws).  Same actions as PyxelSeedThreads with LOCKED = TRUE;   *)
(* the generator is abstracted to [stream, pos] (what Advance does to it is  *)
(* irrelevant for the lock discipline) and the history variables are dropped.*)
EXTENDS Integers, Sequences, Apalache

CONSTANT
  \* @type: Set(Str);
  Threads

VARIABLES
  \* @type: { stream: Int, pos: Int };
  gen,
  \* @type: Str -> Seq({ stream: Int, pos: Int });
  saved,
  \* @type: Str;
  owner,
  \* @type: { stream: Int, pos: Int };
  ugen

NOBODY == "nobody"
\* @type: (Int) => { stream: Int, pos: Int };
Fresh(s) == [stream |-> s, pos |-> 0]
\* @type: ({ stream: Int, pos: Int }) => { stream: Int, pos: Int };
Advance(g) == [stream |-> g.stream, pos |-> g.pos + 1]
Inside(t) == Len(saved[t]) > 0
NobodyInside == \A t \in Threads : ~ Inside(t)

CInit == Threads = {"t1", "t2", "t3"}

Init ==
  /\ gen = [stream |-> 0, pos |-> 0] /\ ugen = [stream |-> 0, pos |-> 0]
  /\ saved = [t \in Threads |-> << >>]
  /\ owner = NOBODY

Enter(t, s) ==
  /\ owner \in {NOBODY, t}
  /\ owner' = t
  /\ saved' = [saved EXCEPT ![t] = << gen >> \o saved[t]]
  /\ gen' = Fresh(s)
  /\ UNCHANGED ugen

Draw(t) ==
  /\ Inside(t) \/ NobodyInside
  /\ gen' = Advance(gen)
  /\ ugen' = IF Inside(t) THEN ugen ELSE Advance(ugen)
  /\ UNCHANGED << saved, owner >>

Leave(t) ==
  /\ Inside(t)
  /\ gen' = Head(saved[t])
  /\ saved' = [saved EXCEPT ![t] = Tail(saved[t])]
  /\ owner' = IF Len(saved[t]) = 1 THEN NOBODY ELSE owner
  /\ UNCHANGED ugen

Next == \E t \in Threads : (\E s \in 1 .. 3 : Enter(t, s)) \/ Draw(t) \/ Leave(t)

\* the properties (C04 Restored; blocks of different threads never overlap)
Restored == NobodyInside => gen = ugen
Exclusive == \A a \in Threads, b \in Threads : (Inside(a) /\ Inside(b)) => a = b

\* inductive strengthening: the lock is held exactly by the thread that is inside, and the
\* outermost saved state of that thread is the state the unseeded code left
IndInv ==
  /\ owner \in Threads \cup {NOBODY}
  /\ (owner = NOBODY) <=> NobodyInside
  /\ \A t \in Threads : Inside(t) => owner = t
  /\ \A t \in Threads : Inside(t) => saved[t][Len(saved[t])] = ugen
  /\ Restored
  /\ Exclusive

IndInit ==
  /\ gen = Gen(1) /\ ugen = Gen(1)
  /\ saved = Gen(4)
  /\ DOMAIN saved = Threads
  /\ owner = Gen(1)
  /\ IndInv
=============================================================================
