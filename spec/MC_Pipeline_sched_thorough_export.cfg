SPECIFICATION OneSpec
CONSTANTS
  FAMILY = "sched"
  MAXSTEPS = 0
  MAXTICK = 5
  MAXLEN = 3
  STRIDE = 150
CHECK_DEADLOCK FALSE
