SPECIFICATION MCSpec
CONSTANTS
  MINB = 4
  MAXB = 9
  U = 2
INVARIANT C16_SarBounded
INVARIANT C16_SarIsBinarySearch
INVARIANT C16_WidthHolds
CHECK_DEADLOCK FALSE
