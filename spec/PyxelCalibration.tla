------------------------- MODULE PyxelCalibration -------------------------
(***************************************************************************)
(* Calibration: layout of the optimiser's decision vector over the         *)
(* calibrated parameters, boundaries, logarithmic parameters, the fitness  *)
(* as the declared figure of merit on the declared data, fit-range         *)
(* checking, and the champion history.  Properties C10 and C11.            *)
(*                                                                         *)
(* Everything is integer: decision components are integers, a logarithmic  *)
(* parameter is ten to that (integer) power, frames are small integer      *)
(* matrices, the simulated frame is  A * ramp + B  where A is the first    *)
(* applied value and B the sum of all others plus the pair's input         *)
(* argument - the same arithmetic the probe model of the harness performs. *)
(***************************************************************************)
EXTENDS Integers, Sequences, FiniteSets, TLC

VARIABLES
  kcfg,    \* [vars: Seq([arity, log, lo: Seq(Int), hi: Seq(Int)]),   bounds in DECISION space
           \*  pairs: Seq([inp, w: Seq(Seq(Int)) weight frame, target: Seq(Seq(Int))]),
           \*  tr: <<y0, y1, x0, x1>>, rr: <<y0, y1, x0, x1>>, ff: "abs" | "sq", rows, cols]
  phase,   \* "new" "rejected" "ready"
  evals    \* history: Seq([x, applied, fitness])

kvars == << kcfg, phase, evals >>

NV == Len(kcfg.vars)

RECURSIVE Pow10(_)
Pow10(k) == IF k <= 0 THEN 1 ELSE 10 * Pow10(k - 1)

RECURSIVE SumTo(_, _)
SumTo(f, n) == IF n = 0 THEN 0 ELSE f[n] + SumTo(f, n - 1)

\* C10: components are assigned to parameters in declaration order; a vector-valued
\* parameter takes as many consecutive components as it has placeholders.
Offset(j) == SumTo([k \in 1 .. NV |-> kcfg.vars[k].arity], j - 1)
Dim == Offset(NV + 1)
VarOf(c) == CHOOSE j \in 1 .. NV : Offset(j) < c /\ c <= Offset(j) + kcfg.vars[j].arity
Lower == [c \in 1 .. Dim |-> kcfg.vars[VarOf(c)].lo[c - Offset(VarOf(c))]]
Upper == [c \in 1 .. Dim |-> kcfg.vars[VarOf(c)].hi[c - Offset(VarOf(c))]]

\* the optimiser works on the base-10 logarithm of a logarithmic parameter
ToParams(x) == [c \in 1 .. Dim |-> IF kcfg.vars[VarOf(c)].log THEN Pow10(x[c]) ELSE x[c]]
Assign(x) == [j \in 1 .. NV |-> SubSeq(ToParams(x), Offset(j) + 1, Offset(j) + kcfg.vars[j].arity)]

InBox(x) == \A c \in 1 .. Dim : Lower[c] <= x[c] /\ x[c] <= Upper[c]

---------------------------------------------------------------------------
\* C11: the declared figure of merit on the declared data

Flat(applied) ==        \* all applied values, in order
  LET RECURSIVE Cat(_)
      Cat(j) == IF j > Len(applied) THEN << >> ELSE applied[j] \o Cat(j + 1)
  IN Cat(1)

SimFrame(applied, inp) ==
  LET vals == Flat(applied)
      A == vals[1]
      B == SumTo(vals, Len(vals)) - vals[1] + inp
  IN [y \in 1 .. kcfg.rows |-> [xx \in 1 .. kcfg.cols |-> A * ((y - 1) * kcfg.cols + (xx - 1)) + B]]

Abs(v) == IF v < 0 THEN -v ELSE v

\* ranges are <<y0, y1, x0, x1>>, half-open like Python slices
Extent(r) == << r[2] - r[1], r[4] - r[3] >>

PairFitness(applied, p) ==
  LET sim == SimFrame(applied, p.inp)
      ny == kcfg.tr[2] - kcfg.tr[1]
      nx == kcfg.tr[4] - kcfg.tr[3]
      term(dy, dx) ==
        LET t == p.target[kcfg.tr[1] + dy][kcfg.tr[3] + dx]
            s == sim[kcfg.rr[1] + dy][kcfg.rr[3] + dx]
            w == p.w[kcfg.tr[1] + dy][kcfg.tr[3] + dx]
        IN IF kcfg.ff = "abs" THEN w * Abs(t - s) ELSE w * (t - s) * (t - s)
      RECURSIVE RowSum(_, _)
      RowSum(dy, dx) == IF dx > nx THEN 0 ELSE term(dy, dx) + RowSum(dy, dx + 1)
      RECURSIVE AllSum(_)
      AllSum(dy) == IF dy > ny THEN 0 ELSE RowSum(dy, 1) + AllSum(dy + 1)
  IN AllSum(1)

Fitness(x) ==
  LET applied == Assign(x) IN
    SumTo([p \in 1 .. Len(kcfg.pairs) |-> PairFitness(applied, kcfg.pairs[p])], Len(kcfg.pairs))

TRows == Len(kcfg.pairs[1].target)
TCols == Len(kcfg.pairs[1].target[1])

\* Fit ranges that select regions of different extent in result and target, or that
\* exceed the target's size, are rejected before optimisation starts.
RangesOK ==
  /\ Extent(kcfg.tr) = Extent(kcfg.rr)
  /\ 0 <= kcfg.tr[1] /\ kcfg.tr[1] < kcfg.tr[2] /\ kcfg.tr[2] <= TRows
  /\ 0 <= kcfg.tr[3] /\ kcfg.tr[3] < kcfg.tr[4] /\ kcfg.tr[4] <= TCols

\* A result range reaching beyond the detector is something the statement does not
\* speak about: such configurations are outside the model.
InModel ==
  /\ 0 <= kcfg.rr[1] /\ kcfg.rr[1] < kcfg.rr[2] /\ kcfg.rr[2] <= kcfg.rows
  /\ 0 <= kcfg.rr[3] /\ kcfg.rr[3] < kcfg.rr[4] /\ kcfg.rr[4] <= kcfg.cols

Check ==
  /\ phase = "new"
  /\ phase' = IF RangesOK THEN "ready" ELSE "rejected"
  /\ UNCHANGED << kcfg, evals >>

Eval(x) ==
  /\ phase = "ready"
  /\ InBox(x)
  /\ evals' = Append(evals, [x |-> x, applied |-> Assign(x), fitness |-> Fitness(x)])
  /\ UNCHANGED << kcfg, phase >>

\* The same calibration objects are run once more (a session): the declared configuration -
\* parameters, boundaries, logarithmic flags, ranges - is what it was; a run never alters it.
Rerun ==
  /\ phase \in {"ready", "rejected"}
  /\ phase' = "new"
  /\ evals' = << >>
  /\ UNCHANGED kcfg

KInitWith(c) == kcfg = c /\ phase = "new" /\ evals = << >>

\* nothing is evaluated before the ranges were accepted
C11_CheckedFirst == phase # "ready" => evals = << >>
\* every component of an applied parameter lies inside its declared boundaries
C10_InBounds ==
  \A k \in 1 .. Len(evals) : \A c \in 1 .. Dim :
    LET v == Flat(evals[k].applied)[c]
        lg == kcfg.vars[VarOf(c)].log
    IN (IF lg THEN Pow10(Lower[c]) ELSE Lower[c]) <= v /\ v <= (IF lg THEN Pow10(Upper[c]) ELSE Upper[c])
\* each parameter gets exactly as many components as it has placeholders
C10_Layout ==
  \A k \in 1 .. Len(evals) : \A j \in 1 .. NV : Len(evals[k].applied[j]) = kcfg.vars[j].arity
=============================================================================
