SPECIFICATION HSpec
CONSTRAINT Mark
POSTCONDITION Verdict
CHECK_DEADLOCK FALSE
