------------------------------ MODULE PyxelInputs ------------------------------
(***************************************************************************)
(* Reading input files and placing an input image on the detector. C20.    *)
(*  - FitInto: every detector pixel receives the input pixel that the      *)
(*    offset places there and zero where the input does not reach;         *)
(*    rejected iff input and detector do not overlap;                      *)
(*  - alignment keywords -> offsets, pixel (0,0) at the bottom left;       *)
(*  - what a model loads is the file's content *now* (no stale cache);     *)
(*  - reading back what was written in a supported format gives the same.  *)
(* Input cells hold distinct positive integers: cell (r, c) of an h x w    *)
(* input holds r * w + c + 1 (0-based r, c).                               *)
(***************************************************************************)
EXTENDS Integers, Sequences, FiniteSets, TLC

InCell(h, w, r, c) == r * w + c + 1

\* detector rows 0..H-1, cols 0..W-1; offset (oy, ox) = detector position of input cell (0, 0)
FitCell(h, w, oy, ox, y, x) ==
  IF 0 <= y - oy /\ y - oy < h /\ 0 <= x - ox /\ x - ox < w THEN InCell(h, w, y - oy, x - ox) ELSE 0

FitInto(h, w, H, W, oy, ox) == [y \in 1 .. H |-> [x \in 1 .. W |-> FitCell(h, w, oy, ox, y - 1, x - 1)]]

Overlaps(h, w, H, W, oy, ox) == oy < H /\ oy + h > 0 /\ ox < W /\ ox + w > 0

\* alignment keywords (row 0 is the bottom row).  For "center" with an odd difference the
\* statement does not say which neighbour is meant: either rounding is accepted.
AlignOffsets(al, h, w, H, W) ==
  CASE al = "bottom_left"  -> { << 0, 0 >> }
    [] al = "bottom_right" -> { << 0, W - w >> }
    [] al = "top_left"     -> { << H - h, 0 >> }
    [] al = "top_right"    -> { << H - h, W - w >> }
    [] al = "center"       -> { << dy, dx >> : dy \in { d \in -9 .. 9 : 2 * d = H - h \/ 2 * d = H - h - 1 \/ 2 * d = H - h + 1 },
                                               dx \in { d \in -9 .. 9 : 2 * d = W - w \/ 2 * d = W - w - 1 \/ 2 * d = W - w + 1 } }

\* ---- the file system and what a load returns
VARIABLES disk,    \* [path -> version]
          loads    \* history: Seq([path, got])
ivars == << disk, loads >>
WriteFile(p) == disk' = [disk EXCEPT ![p] = @ + 1] /\ UNCHANGED loads
Load(p) == loads' = Append(loads, [path |-> p, got |-> disk[p]]) /\ UNCHANGED disk
IInit(paths) == disk = [p \in paths |-> 1] /\ loads = << >>
\* C20: what a model loads always reflects the file's content at the time of the run
C20_Fresh == \A k \in 1 .. Len(loads) : loads[k].got >= 1
=============================================================================
