-------------------------- MODULE ObservationTrace --------------------------
(* Batch validation of recorded observation runs against PyxelObservation.  *)
(* Trace = [ocfg, observed, events]; events:                                *)
(*   run        eff (tokens the models actually received, decoded by the    *)
(*              probe from its arguments / the detector), seenMem           *)
(*   entry      one per entry of the merged result: label (tokens of the    *)
(*              enabled parameters read from the entry's coordinates), id   *)
(*              (run index label, -1 in product mode), photon, signal       *)
(*   user_after snapshot of the caller's objects after run_mode             *)
(*   done / failed                                                          *)
EXTENDS PyxelObservation, TLCExt, Json, IOUtils, SequencesExt

Traces == JsonDeserialize(IOEnv.TRACE_FILE)

VARIABLES tid, l, closed, seen
tvars == << ovars, tid, l, closed, seen >>

Tr == Traces[tid]
Ev == Tr.events[l]
HasEv(e) == l <= Len(Tr.events) /\ Tr.events[l].e = e
Has(f) == f \in DOMAIN Ev

TInit ==
  /\ tid \in 1 .. Len(Traces)
  /\ l = 1 /\ closed = FALSE /\ seen = {}
  /\ OInitWith(Traces[tid].ocfg)

Keep == UNCHANGED << tid, closed, seen >>

SilentPlan == Plan /\ UNCHANGED l /\ Keep
SilentMerge == Merge /\ UNCHANGED l /\ Keep

\* runs that could not be observed (process-pool workers): canonical order
Unobserved == ~ Tr.observed
SilentRun ==
  /\ Unobserved
  /\ \/ MetaRun(1)
     \/ (pending # {} /\ Exec(CHOOSE r \in pending : \A q \in pending : r <= q))
  /\ UNCHANGED l /\ Keep

TRun ==
  /\ HasEv("run")
  /\ \/ \E r \in 1 .. Len(plan) : MetaRun(r) /\ Ev.eff = plan[r]
     \/ \E r \in pending : Exec(r) /\ Ev.eff = plan[r]
  /\ (Has("seenMem") => Ev.seenMem = User0.mem)
  /\ l' = l + 1 /\ Keep

ProjEnabled(e) == [k \in 1 .. Len(EnabledSeq) |-> e[EnabledSeq[k]]]

RunOfEntry ==
  IF Ev.id >= 0 THEN Ev.id + 1
  ELSE IF \E r \in 1 .. Len(plan) : ProjEnabled(plan[r]) = Ev.label
         THEN CHOOSE r \in 1 .. Len(plan) : ProjEnabled(plan[r]) = Ev.label
         ELSE 0

TEntry ==
  /\ HasEv("entry")
  /\ phase = "merged"
  /\ LET r == RunOfEntry IN
       /\ r \in 1 .. Len(plan)
       /\ r \notin seen
       /\ ProjEnabled(plan[r]) = Ev.label
       /\ tree[r].photon = Ev.photon
       /\ tree[r].signal = Ev.signal
       /\ seen' = seen \cup {r}
  /\ l' = l + 1
  /\ UNCHANGED << ovars, tid, closed >>

TUserAfter ==
  /\ HasEv("user_after")
  /\ Ev.mem = user.mem
  /\ Ev.unchanged
  /\ l' = l + 1
  /\ UNCHANGED << ovars, tid, closed, seen >>

TDone ==
  /\ HasEv("done")
  /\ phase = "merged"
  /\ seen = 1 .. Len(plan)
  /\ ~ closed
  /\ closed' = TRUE /\ l' = l + 1
  /\ UNCHANGED << ovars, tid, seen >>

\* C01 in observation mode only looks at which models ran in which run
TDoneNoEntries ==
  /\ HasEv("done_noentries")
  /\ phase = "merged"
  /\ ~ closed
  /\ closed' = TRUE /\ l' = l + 1
  /\ UNCHANGED << ovars, tid, seen >>

TFailed ==
  /\ HasEv("failed")
  /\ phase = "failed"
  /\ ~ closed
  /\ (Has("eff") => Ev.eff = ProjEnabled(error.eff))
  /\ (Has("msg") => Ev.msgok)
  /\ closed' = TRUE /\ l' = l + 1
  /\ UNCHANGED << ovars, tid, seen >>

TReconf ==
  /\ HasEv("reconf")
  /\ Reconfigure(Ev.j, Ev.tok)
  /\ l' = l + 1 /\ Keep

TRerun ==
  /\ HasEv("rerun")
  /\ closed
  /\ Rerun
  /\ closed' = FALSE /\ seen' = {} /\ l' = l + 1
  /\ UNCHANGED tid

Diag ==
  /\ "DIAG" \in DOMAIN IOEnv
  /\ l <= Len(Tr.events)
  /\ ~ ENABLED (TRun \/ TEntry \/ TUserAfter \/ TDone \/ TDoneNoEntries \/ TFailed \/ TRerun \/ TReconf \/ SilentPlan \/ SilentMerge \/ SilentRun)
  /\ PrintT(<<"EXPECTED", tid, l, ToJson([phase |-> phase, plan |-> plan, pending |-> SetToSeq(pending),
                                             seen |-> SetToSeq(seen), error |-> error,
                                             tree |-> [r \in DOMAIN tree |-> tree[r]]])>>)
  /\ FALSE
  /\ UNCHANGED tvars

TNext == SilentPlan \/ SilentMerge \/ SilentRun \/ TRun \/ TEntry \/ TUserAfter \/ TDone \/ TDoneNoEntries
         \/ TFailed \/ TRerun \/ TReconf \/ Diag
TSpec == TInit /\ [][TNext]_tvars

Accepted == closed /\ l = Len(Tr.events) + 1

ASSUME TLCSet(1, {}) /\ TLCSet(3, [t \in 1 .. Len(Traces) |-> 0])
Mark ==
  /\ (Accepted => TLCSet(1, TLCGet(1) \cup {tid}))
  /\ (l > TLCGet(3)[tid] => TLCSet(3, [TLCGet(3) EXCEPT ![tid] = l]))
Verdict ==
  /\ PrintT(<<"ACCEPTED", TLCGet(1)>>)
  /\ PrintT(<<"PROGRESS", TLCGet(3)>>)
=============================================================================
