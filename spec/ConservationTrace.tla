-------------------------- MODULE ConservationTrace --------------------------
(* Validation of charge-handling model calls against PyxelConservation.        *)
(* Trace = [events]; each event is one pixel-level fact observed on the real    *)
(* models:                                                                      *)
(*  collect  pixel, charge, out            simple_collection                    *)
(*  convert  ph, q, out                    simple_conversion, sampling off      *)
(*  sample   ph, out                       simple_conversion, binomial sampling *)
(*  fullwell x, cap, once, twice           simple_full_well applied once, twice *)
(*  kernel   c, d, a, D, k (9 numerators), uniform (uniform frame unchanged)    *)
(*  persist  pixel, trapped, dens, tf, caps, outpixel, outtrapped   (exact)     *)
(*  envelope kind (cdm / persistence), before, after, minok  (totals scaled,    *)
(*           real-valued executions: conservation / no creation, no negatives)  *)
EXTENDS PyxelConservation, TLCExt, Json, IOUtils
Traces == JsonDeserialize(IOEnv.TRACE_FILE)
VARIABLES tid, l
tvars == << tid, l >>
Tr == Traces[tid]
Ev == Tr.events[l]

Good ==
  CASE Ev.e = "collect"  -> Ev.out = Collect(Ev.pixel, Ev.charge)
    [] Ev.e = "convert"  -> Ev.out = Convert(Ev.ph, Ev.q)
    [] Ev.e = "sample"   -> 0 <= Ev.out /\ Ev.out <= Ev.ph
    [] Ev.e = "fullwell" -> Ev.once = FullWell(Ev.x, Ev.cap) /\ Ev.twice = Ev.once
    [] Ev.e = "kernel"   -> Ev.k = Kernel(Ev.c, Ev.d, Ev.a, Ev.D) /\ Sum(Ev.k) = Ev.D /\ Ev.uniform
    [] Ev.e = "persist"  ->
         LET out == PersistStep(Ev.pixel, Ev.trapped, Ev.dens, Ev.tf, Ev.caps) IN
           /\ Ev.outpixel = out.pixel /\ Ev.outtrapped = out.trapped
           /\ Conserved(Ev.pixel, Ev.trapped, [pixel |-> Ev.outpixel, trapped |-> Ev.outtrapped])
    [] Ev.e = "envelope" ->
         /\ Ev.minok                                        \* no negative pixel / trapped charge
         /\ IF Ev.kind = "cdm" THEN Ev.after <= Ev.before   \* never more charge than it received
                               ELSE Ev.after = Ev.before    \* pixel + trapped constant over the step

TInit == tid \in 1 .. Len(Traces) /\ l = 1
TStep == l <= Len(Tr.events) /\ Good /\ l' = l + 1 /\ UNCHANGED tid
Diag ==
  /\ "DIAG" \in DOMAIN IOEnv /\ l <= Len(Tr.events) /\ ~ Good
  /\ PrintT(<<"EXPECTED", tid, l, ToJson([expected |->
        IF Ev.e = "persist" THEN PersistStep(Ev.pixel, Ev.trapped, Ev.dens, Ev.tf, Ev.caps)
        ELSE [pixel |-> 0, trapped |-> << >>]])>>)
  /\ FALSE /\ UNCHANGED tvars
TNext == TStep \/ Diag
TSpec == TInit /\ [][TNext]_tvars
Accepted == l = Len(Tr.events) + 1
ASSUME TLCSet(1, {}) /\ TLCSet(3, [t \in 1 .. Len(Traces) |-> 0])
Mark ==
  /\ (Accepted => TLCSet(1, TLCGet(1) \cup {tid}))
  /\ (l > TLCGet(3)[tid] => TLCSet(3, [TLCGet(3) EXCEPT ![tid] = l]))
Verdict ==
  /\ PrintT(<<"ACCEPTED", TLCGet(1)>>)
  /\ PrintT(<<"PROGRESS", TLCGet(3)>>)
=============================================================================
