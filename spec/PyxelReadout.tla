---------------------------- MODULE PyxelReadout ----------------------------
(* The `Readout` object (pyxel/exposure/readout.py) as a state machine: which *)
(* assignments re-validate, which recompute the cached steps, and what        *)
(* `replace` builds.  Times are integer ticks (one tick = 0.5 s).  The object *)
(* caches `steps`, `n` (number of steps) and `linear`; the cache must follow  *)
(* every successful assignment and a refused one must leave the object as it  *)
(* was.  Deviations of the code from the obvious design are named:            *)
(*   - the `times` setter does not check monotonicity (the constructor does;  *)
(*     ReadoutProperties refuses such a schedule when the run starts: C02);   *)
(*   - the setters never change `time_domain_simulation` (tds);               *)
(*   - `replace` without `times` hands the stored ndarray to the constructor, *)
(*     which cannot take one: it raises (`ReplaceNeedsTimes`).                *)
EXTENDS Integers, Sequences

VARIABLES rd, last
rvars == << rd, last >>

UNIT == 2   \* the default readout time (1 s) in ticks

Diffs(s, ts) == [k \in 1 .. Len(ts) |-> IF k = 1 THEN ts[1] - s ELSE ts[k] - ts[k - 1]]
Linear(st) == \A k \in 1 .. Len(st) : st[k] = st[1]
Increasing(ts) == \A k \in 1 .. Len(ts) - 1 : ts[k] < ts[k + 1]

Mk(ts, s, nd, tds) ==
  [live |-> 1, times |-> ts, start |-> s, nd |-> nd, tds |-> tds,
   steps |-> Diffs(s, ts), n |-> Len(ts), linear |-> Linear(Diffs(s, ts))]
Null == [live |-> 0, times |-> <<0>>, start |-> 0, nd |-> FALSE, tds |-> FALSE,
         steps |-> <<0>>, n |-> 0, linear |-> TRUE]

FirstOk(ts, s) == IF Len(ts) = 0 THEN FALSE ELSE ts[1] # 0 /\ s < ts[1]
CtorOk(ts, s) == FirstOk(ts, s) /\ Increasing(ts)

Done(op, ok, before) == last' = [op |-> op, out |-> IF ok THEN "ok" ELSE "error", before |-> before]

RInit == rd = Null /\ last = [op |-> "none", out |-> "ok", before |-> Null]

\* Readout(times=ts, start_time=s, non_destructive=nd); given = FALSE: no times at all
Construct(given, ts, s, nd) ==
  /\ rd.live = 0 /\ last.op = "none"
  /\ LET t == IF given THEN ts ELSE <<UNIT>> IN
       /\ rd' = IF CtorOk(t, s) THEN Mk(t, s, nd, given) ELSE Null
       /\ Done("construct", CtorOk(t, s), Null)

SetTimes(ts) ==
  /\ rd.live = 1
  /\ rd' = IF FirstOk(ts, rd.start) THEN Mk(ts, rd.start, rd.nd, rd.tds) ELSE rd
  /\ Done("set_times", FirstOk(ts, rd.start), rd)

SetStart(s) ==
  /\ rd.live = 1
  /\ rd' = IF s < rd.times[1] THEN Mk(rd.times, s, rd.nd, rd.tds) ELSE rd
  /\ Done("set_start", s < rd.times[1], rd)

SetND(b) ==
  /\ rd.live = 1
  /\ rd' = [rd EXCEPT !.nd = b]
  /\ Done("set_nd", TRUE, rd)

\* replace(**changes): a NEW object (the trace binds the old one afterwards to rd);
\* the machine continues on the new object when it was built
Replace(hasT, ts, hasS, s, hasN, nd) ==
  /\ rd.live = 1
  /\ LET s2 == IF hasS THEN s ELSE rd.start
         n2 == IF hasN THEN nd ELSE rd.nd
         ok == hasT /\ CtorOk(ts, s2) IN
       /\ rd' = IF ok THEN Mk(ts, s2, n2, TRUE) ELSE rd
       /\ Done("replace", ok, rd)

-----------------------------------------------------------------------------
R_CacheFollows ==
  rd.live = 1 => /\ rd.steps = Diffs(rd.start, rd.times)
                 /\ rd.n = Len(rd.times)
                 /\ rd.linear = Linear(rd.steps)
R_StartBeforeFirst == rd.live = 1 => rd.times[1] # 0 /\ rd.start < rd.times[1] /\ rd.steps[1] > 0
R_ErrorLeavesUntouched == last.out = "error" => rd = last.before
R_BuiltMonotone == (last.op \in {"construct", "replace"} /\ last.out = "ok") => Increasing(rd.times)
\* the clock of C02 is the running sum of the steps: it ends at the last time
RECURSIVE Sum(_)
Sum(st) == IF Len(st) = 0 THEN 0 ELSE st[1] + Sum(Tail(st))
R_StepsSumToLast == rd.live = 1 => rd.start + Sum(rd.steps) = rd.times[Len(rd.times)]
=============================================================================
