SPECIFICATION TSpec
INVARIANT C13_WellFormed
INVARIANT C13_PhotonSign
INVARIANT C13_ErrorLeavesUntouched
CONSTRAINT Mark
POSTCONDITION Verdict
CHECK_DEADLOCK FALSE
