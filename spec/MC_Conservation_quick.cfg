SPECIFICATION MCSpec
CONSTANTS
  MAXS = 2
  STRIDE = 23
CHECK_DEADLOCK FALSE
