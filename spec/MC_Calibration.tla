--------------------------- MODULE MC_Calibration ---------------------------
EXTENDS PyxelCalibration, TLCExt, Json, IOUtils, SequencesExt
CONSTANTS FAMILY, MAXV, STRIDE

V(a, lg, lo, hi) == [arity |-> a, log |-> lg, lo |-> lo, hi |-> hi]
VarSet == { V(1, FALSE, <<1>>, <<3>>), V(1, TRUE, <<0>>, <<2>>), V(2, FALSE, <<1, 2>>, <<2, 4>>),
            V(2, TRUE, <<0, 0>>, <<1, 1>>), V(3, FALSE, <<0, 0, 0>>, <<1, 1, 1>>) }
Layouts(_z) == UNION { [1 .. n -> VarSet] : n \in 1 .. MAXV }

Target(rows, cols, off) == [y \in 1 .. rows |-> [x \in 1 .. cols |-> 10 + off + (y - 1) * cols + (x - 1)]]
Ones(rows, cols) == [y \in 1 .. rows |-> [x \in 1 .. cols |-> 1]]
Wramp(rows, cols) == [y \in 1 .. rows |-> [x \in 1 .. cols |-> 1 + ((y + x) % 3)]]
Pair(inp, w, t) == [inp |-> inp, w |-> w, target |-> t]

Spans(n) == { <<a, b>> : a \in 0 .. n, b \in 0 .. n + 1 }     \* includes empty, reversed and too long
Ranges(r, c) == { <<sy[1], sy[2], sx[1], sx[2]>> : sy \in Spans(r), sx \in Spans(c) }

Cfg(vars, pairs, tr, rr, ff, rows, cols) ==
  [vars |-> vars, pairs |-> pairs, tr |-> tr, rr |-> rr, ff |-> ff, rows |-> rows, cols |-> cols]

\* family "ranges": every pair of fit ranges on a 3x3 target and a 3x3 detector
FamRanges(_z) ==
  { Cfg(<< V(1, FALSE, <<1>>, <<3>>) >>, << Pair(0, Ones(3, 3), Target(3, 3, 0)) >>, tr, rr, "abs", 3, 3) :
      tr \in Ranges(3, 3), rr \in { r \in Ranges(3, 3) : r[1] < r[2] /\ r[3] < r[4] /\ r[2] <= 3 /\ r[4] <= 3 } }

\* family "layouts": every layout of <= MAXV variables, 1..2 target/input pairs, weights, both functions
FamLayouts(_z) ==
  { Cfg(vars, pairs, tr, <<tr[1] + dy, tr[2] + dy, tr[3], tr[4]>>, ff, 4, 3) :
      vars \in Layouts(0), ff \in {"abs", "sq"},
      pairs \in { << Pair(0, Ones(4, 3), Target(4, 3, 0)) >>,
                  << Pair(5, Wramp(4, 3), Target(4, 3, 0)), Pair(2, Ones(4, 3), Target(4, 3, 7)) >> },
      tr \in { <<0, 4, 0, 3>>, <<1, 3, 0, 2>> }, dy \in {0, 1} } 

CfgSet(_z) ==
  { c \in (IF FAMILY = "ranges" THEN FamRanges(0) ELSE FamLayouts(0)) :
      /\ c.rr[1] >= 0 /\ c.rr[2] <= c.rows /\ c.rr[3] >= 0 /\ c.rr[4] <= c.cols }

Mid == [c \in 1 .. Dim |-> (Lower[c] + Upper[c]) \div 2]
Alt == [c \in 1 .. Dim |-> IF c % 2 = 1 THEN Lower[c] ELSE Upper[c]]
Grid == { Lower, Upper, Mid, Alt }

MCNext == Check \/ (Len(evals) < 2 /\ \E x \in Grid : Eval(x)) \/ (Len(evals) >= 1 /\ Rerun)
MCInit == \E c \in CfgSet(0) : KInitWith(c)
MCSpec == MCInit /\ [][MCNext]_kvars

ExportSample(_z) ==
  LET s == SetToSeq(CfgSet(0))
      n == Len(s) \div STRIDE
  IN  /\ PrintT(<<"CFGSET", Len(s), "EXPORTED", n>>)
      /\ JsonSerialize(IOEnv.OUT_FILE, [k \in 1 .. n |-> s[k * STRIDE]])
OneInit == KInitWith(CHOOSE c \in CfgSet(0) : TRUE)
OneSpec == OneInit /\ [][FALSE]_kvars
=============================================================================
