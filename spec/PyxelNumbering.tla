--------------------------- MODULE PyxelNumbering ---------------------------
(* Automatically numbered output files (`<name>_?.<ext>` without a run       *)
(* number: apply_run_number looks at the files that exist and takes the      *)
(* highest number + 1).  The legacy entry points save one file per readout   *)
(* this way.  C19: every save gets its own file, the k-th save is the file   *)
(* with the k-th new number, nothing that exists is written again.           *)
EXTENDS Integers, Sequences, FiniteSets, TLC

VARIABLES present,   \* [number -> content]: files of this name in the folder; content 0 = it was there before
          log        \* Seq([n, k]): the k-th save went to number n
nvars == << present, log >>

Max(S) == CHOOSE x \in S : \A y \in S : y <= x
NextNum == IF DOMAIN present = {} THEN 1 ELSE Max(DOMAIN present) + 1

NInit(pre) == present = [n \in pre |-> 0] /\ log = << >>

\* one save with the automatic suffix (any format): never an error, never an existing file
SaveAuto ==
  LET k == Len(log) + 1 IN
    /\ present' = (NextNum :> k) @@ present
    /\ log' = Append(log, [n |-> NextNum, k |-> k])

N_Fresh == \A i \in 1 .. Len(log) : present[log[i].n] = log[i].k
N_Increasing == \A i, j \in 1 .. Len(log) : i < j => log[i].n < log[j].n
N_Complete == \A k \in 1 .. Len(log) : Cardinality({ n \in DOMAIN present : present[n] = k }) = 1
N_PreUntouched == \A n \in DOMAIN present : present[n] = 0 \/ \E i \in 1 .. Len(log) : log[i].n = n
=============================================================================
