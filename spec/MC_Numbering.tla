---------------------------- MODULE MC_Numbering ----------------------------
EXTENDS PyxelNumbering
CONSTANTS MAXSAVES
Pres == { {}, {1}, {2}, {9}, {1, 2, 3}, {8, 9}, {10}, {9, 10}, {99}, {3, 11}, {1, 10, 100} }
MCInit == \E pre \in Pres : NInit(pre)
MCNext == Len(log) < MAXSAVES /\ SaveAuto
MCSpec == MCInit /\ [][MCNext]_nvars
=============================================================================
