SPECIFICATION MCSpec
CONSTANTS
  MAXSAVES = 13
INVARIANT N_Fresh
INVARIANT N_Increasing
INVARIANT N_Complete
INVARIANT N_PreUntouched
CHECK_DEADLOCK FALSE
