----------------------------- MODULE PyxelCharge -----------------------------
(***************************************************************************)
(* The Charge container: charge added as whole arrays and as positioned    *)
(* clusters, in any interleaving, with reads, removals and resets.  C14.   *)
(*                                                                         *)
(* The specification keeps an independent per-pixel accumulator `acc` and  *)
(* the bag of live clusters; the implementation-shaped variable `rep`      *)
(* records which representation the code is in ("array" until the first    *)
(* cluster arrives, then "frame"), because the conversion points are where *)
(* the defects live.  Positions and pixel sizes are integers (micrometre). *)
(***************************************************************************)
EXTENDS Integers, Sequences, FiniteSets, TLC

CONSTANTS R, C, SV, SH          \* rows, columns, pixel height, pixel width

VARIABLES acc,       \* [1..R*C -> Nat] charge credited per pixel (row-major)
          clusters,  \* Seq([n, ver, hor, label]) live clusters, in frame order
          rep,       \* "array" | "frame"
          hist       \* Seq([op, arg, out, reported])

qvars == << acc, clusters, rep, hist >>

NPix == R * C
Zero == [p \in 1 .. NPix |-> 0]

\* The pixel whose area contains a position; 0 = outside the sensitive area.
\* row index = floor(vertical position / pixel height), column likewise.
PixelOf(ver, hor) ==
  IF 0 <= ver /\ ver < R * SV /\ 0 <= hor /\ hor < C * SH
    THEN (ver \div SV) * C + (hor \div SH) + 1
    ELSE 0

RECURSIVE Credit(_, _)
Credit(a, cs) ==     \* a + the charge of clusters cs, each to its own pixel, outside ones to nobody
  IF cs = << >> THEN a
  ELSE LET c == Head(cs)
           p == PixelOf(c.ver, c.hor)
       IN Credit(IF p = 0 THEN a ELSE [a EXCEPT ![p] = a[p] + c.n], Tail(cs))

\* cluster representation of an array: one cluster per charged pixel, at its centre
CentreV(p) == ((p - 1) \div C) * SV + SV \div 2
CentreH(p) == ((p - 1) % C) * SH + SH \div 2
RECURSIVE ArrayClusters(_, _)
ArrayClusters(a, p) ==
  IF p > NPix THEN << >>
  ELSE (IF a[p] > 0 THEN << [n |-> a[p], ver |-> CentreV(p), hor |-> CentreH(p), label |-> 0] >> ELSE << >>)
       \o ArrayClusters(a, p + 1)

Relabel(cs) == [k \in 1 .. Len(cs) |-> [cs[k] EXCEPT !.label = k - 1]]

Log(op, arg, out, rep_) == hist' = Append(hist, [op |-> op, arg |-> arg, out |-> out, reported |-> rep_])

AddArray(a) ==                 \* a: non-negative array
  /\ acc' = [p \in 1 .. NPix |-> acc[p] + a[p]]
  /\ IF rep = "array"
       THEN UNCHANGED << clusters, rep >>
       ELSE /\ clusters' = Relabel(clusters \o ArrayClusters(a, 1))
            /\ UNCHANGED rep
  /\ Log("add_array", a, "ok", << >>)

AddClusters(cs) ==
  /\ acc' = Credit(acc, cs)
  /\ clusters' = IF rep = "array" THEN Relabel(ArrayClusters(acc, 1) \o cs) ELSE Relabel(clusters \o cs)
  /\ rep' = "frame"
  /\ Log("add_clusters", cs, "ok", << >>)

Contribution(cs) == Credit(Zero, cs)

Remove(lseq) ==                \* remove_from_frame(ids); the empty list removes everything
  /\ LET labels == { lseq[k] : k \in 1 .. Len(lseq) }
         gone == IF labels = {} THEN clusters
                 ELSE SelectSeq(clusters, LAMBDA c : c.label \in labels)
         kept == IF labels = {} THEN << >>
                 ELSE SelectSeq(clusters, LAMBDA c : c.label \notin labels)
     IN /\ acc' = IF rep = "frame" THEN [p \in 1 .. NPix |-> acc[p] - Contribution(gone)[p]] ELSE acc
        /\ clusters' = kept
        \* the representation is decided by whether the cluster table holds rows: once the last
        \* cluster is gone the container is back to the array representation
        /\ rep' = IF kept = << >> THEN "array" ELSE rep
  /\ Log("remove", lseq, "ok", << >>)

Reset ==
  /\ acc' = Zero /\ clusters' = << >> /\ rep' = "array"
  /\ Log("reset", << >>, "ok", << >>)

Read ==                         \* detector.charge.array
  /\ UNCHANGED << acc, clusters, rep >>
  /\ Log("read", << >>, "ok", acc)

QInit == acc = Zero /\ clusters = << >> /\ rep = "array" /\ hist = << >>

\* C14: every read reports the accumulator; a cluster outside the area is credited nowhere
C14_Reported == \A k \in 1 .. Len(hist) : hist[k].op = "read" => hist[k].reported \in [1 .. NPix -> Nat]
C14_NonNegative == \A p \in 1 .. NPix : acc[p] >= 0
C14_FrameAgrees == rep = "frame" => Credit(Zero, clusters) = acc
=============================================================================
