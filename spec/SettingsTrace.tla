--------------------------- MODULE SettingsTrace ---------------------------
(* Batch validation of assignments made to a real processor / real settings *)
(* objects.  Trace = [leaves, disabled, tree0, events]; event =             *)
(*   [path, key, text, val, out, changed, stored, ran]                      *)
(* `text` # "" : the value was given as text (spec: Denote[text]);          *)
(* `changed`   : keys of every setting whose value differs from before      *)
(*               (including settings that did not exist before);            *)
(* `stored`    : the value read back through the key after an accepted      *)
(*               assignment; `ran`: whether any model executed.             *)
EXTENDS PyxelSettings, TLCExt, Json, IOUtils

Traces == JsonDeserialize(IOEnv.TRACE_FILE)
VARIABLES tid, l
tvars == << svars, tid, l >>
Tr == Traces[tid]
Ev == Tr.events[l]
SeqToSet(s) == { s[k] : k \in 1 .. Len(s) }

TInit ==
  /\ tid \in 1 .. Len(Traces)
  /\ l = 1
  /\ LET T == Traces[tid]
         lv == SeqToSet(T.leaves)
     IN SInitWith([leaves |-> lv, disabled |-> SeqToSet(T.disabled)],
                  [x \in lv |-> (CHOOSE e \in SeqToSet(T.tree0) : e.key = x).val])

ValueOf == IF Ev.text # "" THEN Denote[Ev.text] ELSE Ev.val

TLoad ==
  /\ l <= Len(Tr.events)
  /\ Ev.path = "load"
  /\ LoadDocument(Ev.nmodes, Ev.ndets)
  /\ hist'[Len(hist')].out = Ev.out
  /\ l' = l + 1
  /\ UNCHANGED tid

TSet ==
  /\ l <= Len(Tr.events)
  /\ Ev.path # "load"
  /\ IF "key2" \in DOMAIN Ev THEN Assign2(Ev.path, Ev.key, ValueOf, Ev.key2, Ev.val2)
                             ELSE Assign(Ev.path, Ev.key, ValueOf)
  /\ LET h == hist'[Len(hist')] IN
       /\ h.out = Ev.out
       /\ SeqToSet(Ev.changed) = h.changed
       /\ (Ev.out = "ok" => Ev.stored = ValueOf)
       /\ (Ev.out = "rejected" => ~ Ev.ran)
  /\ l' = l + 1
  /\ UNCHANGED tid

Diag ==
  /\ "DIAG" \in DOMAIN IOEnv
  /\ l <= Len(Tr.events)
  /\ ~ ENABLED (TSet \/ TLoad)
  /\ Ev.path # "load"
  /\ PrintT(<<"EXPECTED", tid, l, ToJson([refused |-> Refused(Ev.path, Ev.key, ValueOf),
                                             resolves |-> Resolve(Ev.key) # NONE,
                                             inrange |-> InRange(Ev.key, ValueOf), value |-> ValueOf])>>)
  /\ FALSE
  /\ UNCHANGED tvars

TNext == TSet \/ TLoad \/ Diag
TSpec == TInit /\ [][TNext]_tvars
Accepted == l = Len(Tr.events) + 1

ASSUME TLCSet(1, {}) /\ TLCSet(3, [t \in 1 .. Len(Traces) |-> 0])
Mark ==
  /\ (Accepted => TLCSet(1, TLCGet(1) \cup {tid}))
  /\ (l > TLCGet(3)[tid] => TLCSet(3, [TLCGet(3) EXCEPT ![tid] = l]))
Verdict ==
  /\ PrintT(<<"ACCEPTED", TLCGet(1)>>)
  /\ PrintT(<<"PROGRESS", TLCGet(3)>>)
=============================================================================
