SPECIFICATION TTSpec
CONSTANTS
  Threads = {"t1", "t2", "t3"}
  Seeds = {1, 2, 3}
  Kinds = {"uniform"}
  MaxDepth = 8
  MaxDraws = 1000
  MaxHist = 1000
  LOCKED = TRUE
CONSTRAINT Mark
POSTCONDITION Verdict
INVARIANT C04T_Restored
INVARIANT C04T_Reproducible
INVARIANT LockInv
INVARIANT Exclusive
CHECK_DEADLOCK FALSE
