--------------------------- MODULE PyxelSeedThreads ---------------------------
(***************************************************************************)
(* pyxel.util.set_random_seed used by several threads of one process       *)
(* (pipelines evaluated in parallel by a calibration, by the threaded dask *)
(* scheduler of an observation, ...).  The generator of numpy.random is    *)
(* ONE object shared by all threads; `previous_state` is a local variable  *)
(* of each block.  Properties C04 (restored, reproducible) and the seeded  *)
(* half of C07 (the draws of a run do not depend on the interleaving).     *)
(*                                                                         *)
(* One action per critical section of the context manager:                 *)
(*   Enter(t, s)  acquire the lock; previous_state = get_state(); seed(s)  *)
(*   Draw(t, k)   a draw by thread t                                       *)
(*   Leave(t)     set_state(previous_state); release the lock (`finally`)  *)
(* LOCKED = FALSE is the named deviation DEV_NoSeedLock: the code before   *)
(* the repair (no lock) - TLC shows that both properties fail then.        *)
(***************************************************************************)
EXTENDS Integers, Sequences, FiniteSets, TLC

CONSTANTS Threads, Seeds, Kinds, MaxDepth, MaxDraws, MaxHist, LOCKED

VARIABLES gen,      \* the process-wide generator: [stream, seq]
          saved,    \* [Threads -> Seq(generator state)]: previous_state of each open block, innermost first
          expect,   \* [Threads -> Seq(generator state)]: where the own stream of each open block should be
          owner,    \* the thread holding the lock, or NOBODY
          ugen,     \* where the unseeded process stream should be
          hist,     \* Seq([t, op, arg, gen, ok])
          ndraws

tvars == << gen, saved, expect, owner, ugen, hist, ndraws >>

NOBODY == "nobody"
U == 0
\* The generator state is identified by its stream (a seed, or U for the unseeded process
\* stream) and the kinds of draws made since it was seeded: legacy normal draws come in
\* pairs (one deviate stays cached), so the history of kinds - not a count - determines it.
\* (Different histories may lead to the same real state - two uniform draws and two normal
\* draws consume the same words - so the instances draw uniforms only; a cached deviate is
\* present in the initial state of half of the behaviours.)
Fresh(seed) == [stream |-> seed, seq |-> << >>]
Advance(g, kind) == [g EXCEPT !.seq = Append(@, kind)]

Inside(t) == saved[t] # << >>
NobodyInside == \A t \in Threads : ~ Inside(t)

\* the lock is re-entrant: the owner may nest blocks
CanEnter(t) == (~ LOCKED) \/ owner \in {NOBODY, t}

Log(t, op, arg, g, ok) == hist' = Append(hist, [t |-> t, op |-> op, arg |-> arg, gen |-> g, ok |-> ok])

Enter(t, s) ==
  /\ Len(saved[t]) < MaxDepth
  /\ CanEnter(t)
  /\ owner' = IF LOCKED THEN t ELSE owner
  /\ saved' = [saved EXCEPT ![t] = << gen >> \o @]
  /\ expect' = [expect EXCEPT ![t] = << Fresh(s) >> \o @]
  /\ gen' = Fresh(s)
  /\ Log(t, "enter", s, Fresh(s), TRUE)
  /\ UNCHANGED << ugen, ndraws >>

\* Draws outside every seeded block while another thread is inside one are outside the
\* model: nothing can make them reproducible with a process-wide generator.
Draw(t, kind) ==
  /\ ndraws < MaxDraws
  /\ Inside(t) \/ NobodyInside
  /\ gen' = Advance(gen, kind)
  /\ ndraws' = ndraws + 1
  /\ IF Inside(t)
       THEN /\ expect' = [expect EXCEPT ![t] = << Advance(Head(@), kind) >> \o Tail(@)]
            /\ Log(t, "draw", kind, Advance(gen, kind), gen = Head(expect[t]))   \* drawn from the own stream?
            /\ UNCHANGED ugen
       ELSE /\ ugen' = Advance(ugen, kind)
            /\ Log(t, "draw", kind, Advance(gen, kind), gen = ugen)
            /\ UNCHANGED expect
  /\ UNCHANGED << saved, owner >>

Leave(t) ==
  /\ Inside(t)
  /\ gen' = Head(saved[t])
  /\ saved' = [saved EXCEPT ![t] = Tail(@)]
  /\ expect' = [expect EXCEPT ![t] = Tail(@)]
  /\ owner' = IF LOCKED /\ Len(saved[t]) = 1 THEN NOBODY ELSE owner
  /\ Log(t, "leave", 0, Head(saved[t]), TRUE)
  /\ UNCHANGED << ugen, ndraws >>

TNextT == \E t \in Threads :
            \/ \E s \in Seeds : Enter(t, s)
            \/ \E k \in Kinds : Draw(t, k)
            \/ Leave(t)

TInitT(g0) ==
  /\ gen = g0 /\ ugen = g0
  /\ saved = [t \in Threads |-> << >>] /\ expect = [t \in Threads |-> << >>]
  /\ owner = NOBODY /\ hist = << >> /\ ndraws = 0

---------------------------------------------------------------------------
\* C04: outside every seeded block the generator is where the unseeded code left it
C04T_Restored == NobodyInside => gen = ugen
\* C04 / C07: every draw of a seeded block comes from the block's own stream, at the
\* position the block itself reached - whatever the other threads do
C04T_Reproducible == \A k \in 1 .. Len(hist) : hist[k].ok
\* the lock is held exactly while its owner is inside a block
LockInv == LOCKED => (owner = NOBODY <=> NobodyInside) /\ (\A t \in Threads : Inside(t) => owner = t)
\* with the lock, seeded blocks of different threads never overlap
Exclusive == LOCKED => Cardinality({ t \in Threads : Inside(t) }) <= 1
=============================================================================
