--------------------------- MODULE SeedHookTrace ---------------------------
(* Seeded blocks recorded by the hooks in pyxel.util.set_random_seed while    *)
(* the repository's own tests and examples run (PYXEL_VERIF_TRACE), checked   *)
(* against PyxelSeedThreads.  Events of one process, in the order of the      *)
(* per-process sequence number (taken under the hook's lock):                 *)
(*   seed_enter {t, seed, state}  state = generator before seeding            *)
(*   seed_exit  {t, seed, state}  state = generator after the `finally`       *)
(* Draws are not logged: the generator state at entry is bound from the       *)
(* recording; what the specification decides is that the state at exit is     *)
(* the state saved at entry (C04 Restored), that blocks are properly nested   *)
(* per thread, and that blocks of different threads never overlap.            *)
EXTENDS PyxelSeedThreads, TLCExt, Json, IOUtils

Traces == JsonDeserialize(IOEnv.TRACE_FILE)
VARIABLES tid, l
ttvars == << tvars, tid, l >>
Ev == Traces[tid].events[l]
HasEv(e) == l <= Len(Traces[tid].events) /\ Traces[tid].events[l].e = e

HInit == /\ tid \in 1 .. Len(Traces) /\ l = 1
         /\ TInitT([stream |-> U, seq |-> << >>])

HEnter ==
  /\ HasEv("seed_enter")
  /\ CanEnter(Ev.t)                                   \* blocks of different threads do not overlap
  /\ owner' = IF LOCKED THEN Ev.t ELSE owner
  /\ saved' = [saved EXCEPT ![Ev.t] = << Ev.state >> \o @]
  /\ expect' = [expect EXCEPT ![Ev.t] = << Fresh(Ev.seed) >> \o @]
  /\ gen' = Fresh(Ev.seed)
  /\ ugen' = IF NobodyInside THEN Ev.state ELSE ugen  \* unlogged draws outside the blocks
  /\ Log(Ev.t, "enter", Ev.seed, Fresh(Ev.seed), TRUE)
  /\ UNCHANGED ndraws
  /\ l' = l + 1 /\ UNCHANGED tid

HExit ==
  /\ HasEv("seed_exit")
  /\ Inside(Ev.t)
  /\ Ev.state = Head(saved[Ev.t])                     \* C04: restored to what was saved at entry
  /\ Leave(Ev.t)
  /\ l' = l + 1 /\ UNCHANGED tid

Diag ==
  /\ "DIAG" \in DOMAIN IOEnv
  /\ l <= Len(Traces[tid].events)
  /\ PrintT(<<"EXPECTED", tid, l, ToJson([owner |-> owner, saved |-> saved])>>)
  /\ FALSE /\ UNCHANGED ttvars

HNext == HEnter \/ HExit \/ Diag
HSpec == HInit /\ [][HNext]_ttvars
Accepted == l = Len(Traces[tid].events) + 1
ASSUME TLCSet(1, {}) /\ TLCSet(3, [t \in 1 .. Len(Traces) |-> 0])
Mark ==
  /\ (Accepted => TLCSet(1, TLCGet(1) \cup {tid}))
  /\ (l > TLCGet(3)[tid] => TLCSet(3, [TLCGet(3) EXCEPT ![tid] = l]))
Verdict ==
  /\ PrintT(<<"ACCEPTED", TLCGet(1)>>)
  /\ PrintT(<<"PROGRESS", TLCGet(3)>>)
=============================================================================
