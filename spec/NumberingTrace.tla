--------------------------- MODULE NumberingTrace ---------------------------
(* trace = [pre: Seq(number), events: Seq([n, out, listing, contents])]:     *)
(* after each save the harness lists the folder (numbers and what they hold) *)
EXTENDS PyxelNumbering, TLCExt, Json, IOUtils

Traces == JsonDeserialize(IOEnv.TRACE_FILE)
VARIABLES tid, l
tvars == << nvars, tid, l >>
Tr == Traces[tid]
Ev == Tr.events[l]
ToSet(s) == { s[i] : i \in 1 .. Len(s) }

TInit == tid \in 1 .. Len(Traces) /\ l = 1 /\ NInit(ToSet(Traces[tid].pre))

TStep ==
  /\ l <= Len(Tr.events)
  /\ SaveAuto
  /\ Ev.out = "ok"
  /\ Ev.n = log'[Len(log')].n
  /\ ToSet(Ev.listing) = DOMAIN present'
  /\ Len(Ev.listing) = Len(Ev.contents)
  /\ \A i \in 1 .. Len(Ev.listing) : Ev.contents[i] = present'[Ev.listing[i]]
  /\ l' = l + 1
  /\ UNCHANGED tid

Diag ==
  /\ "DIAG" \in DOMAIN IOEnv
  /\ l <= Len(Tr.events)
  /\ ~ ENABLED TStep
  /\ PrintT(<<"EXPECTED", tid, l, ToJson([next |-> NextNum, saves |-> Len(log)])>>)
  /\ FALSE
  /\ UNCHANGED tvars

TNext == TStep \/ Diag
TSpec == TInit /\ [][TNext]_tvars
Accepted == l = Len(Tr.events) + 1

ASSUME TLCSet(1, {}) /\ TLCSet(3, [t \in 1 .. Len(Traces) |-> 0])
Mark ==
  /\ (Accepted => TLCSet(1, TLCGet(1) \cup {tid}))
  /\ (l > TLCGet(3)[tid] => TLCSet(3, [TLCGet(3) EXCEPT ![tid] = l]))
Verdict ==
  /\ PrintT(<<"ACCEPTED", TLCGet(1)>>)
  /\ PrintT(<<"PROGRESS", TLCGet(3)>>)
=============================================================================
