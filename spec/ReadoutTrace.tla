---------------------------- MODULE ReadoutTrace ----------------------------
(* Batch validation of operation histories executed on a real Readout.       *)
(* event = [op, given, times, hasS, start, hasN, nd, out, after, old]:       *)
(* `after` projects the object the history continues on, `old` the object    *)
(* the operation was called on, observed after the call.                     *)
EXTENDS PyxelReadout, TLCExt, Json, IOUtils, TLC

Traces == JsonDeserialize(IOEnv.TRACE_FILE)
VARIABLES tid, l
tvars == << rvars, tid, l >>
Tr == Traces[tid]
Ev == Tr.events[l]
IsOp(o) == l <= Len(Tr.events) /\ Tr.events[l].op = o
Proj(r) == [live |-> r.live, times |-> r.times, start |-> r.start, nd |-> r.nd, tds |-> r.tds,
            steps |-> r.steps, n |-> r.n, linear |-> r.linear]

TInit == tid \in 1 .. Len(Traces) /\ l = 1 /\ RInit

Matches ==
  /\ last'.out = Ev.out
  /\ Proj(rd') = Ev.after
  \* the object the operation was called on: changed in place by a setter, untouched by replace / a refusal
  /\ Ev.old = IF Ev.op \in {"replace", "construct"} \/ Ev.out = "error" THEN Proj(rd) ELSE Proj(rd')
  /\ Ev.it_ok

TStep ==
  /\ l <= Len(Tr.events)
  /\ \/ IsOp("construct") /\ Construct(Ev.given, Ev.times, Ev.start, Ev.nd)
     \/ IsOp("set_times") /\ SetTimes(Ev.times)
     \/ IsOp("set_start") /\ SetStart(Ev.start)
     \/ IsOp("set_nd") /\ SetND(Ev.nd)
     \/ IsOp("replace") /\ Replace(Ev.given, Ev.times, Ev.hasS, Ev.start, Ev.hasN, Ev.nd)
  /\ Matches
  /\ l' = l + 1
  /\ UNCHANGED tid

Diag ==
  /\ "DIAG" \in DOMAIN IOEnv
  /\ l <= Len(Tr.events)
  /\ ~ ENABLED TStep
  /\ PrintT(<<"EXPECTED", tid, l, ToJson([rd |-> rd])>>)
  /\ FALSE
  /\ UNCHANGED tvars

TNext == TStep \/ Diag
TSpec == TInit /\ [][TNext]_tvars
Accepted == l = Len(Tr.events) + 1

ASSUME TLCSet(1, {}) /\ TLCSet(3, [t \in 1 .. Len(Traces) |-> 0])
Mark ==
  /\ (Accepted => TLCSet(1, TLCGet(1) \cup {tid}))
  /\ (l > TLCGet(3)[tid] => TLCSet(3, [TLCGet(3) EXCEPT ![tid] = l]))
Verdict ==
  /\ PrintT(<<"ACCEPTED", TLCGet(1)>>)
  /\ PrintT(<<"PROGRESS", TLCGet(3)>>)
=============================================================================
