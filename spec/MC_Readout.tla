----------------------------- MODULE MC_Readout -----------------------------
(* Every history construct ; op ; ... of MAXLEN events over a small alphabet. *)
EXTENDS PyxelReadout, TLCExt, Json, IOUtils, SequencesExt, TLC

CONSTANTS MAXLEN, MAXTICK, STRIDE
VARIABLE hist
mvars == << rvars, hist >>

Ticks == 0 .. MAXTICK
TimesDom == {<< >>} \cup {<<a>> : a \in Ticks} \cup {<<a, b>> : a \in Ticks, b \in Ticks}
Starts == -1 .. (MAXTICK - 1)

Rec(op, given, ts, hasS, s, hasN, nd) ==
  [op |-> op, given |-> given, times |-> ts, hasS |-> hasS, start |-> s, hasN |-> hasN, nd |-> nd]

MCInit == RInit /\ hist = << >>

MCNext ==
  /\ Len(hist) < MAXLEN
  /\ \/ \E ts \in TimesDom, s \in Starts :
          Construct(TRUE, ts, s, FALSE) /\ hist' = Append(hist, Rec("construct", TRUE, ts, TRUE, s, TRUE, FALSE))
     \/ \E s \in Starts :
          Construct(FALSE, << >>, s, TRUE) /\ hist' = Append(hist, Rec("construct", FALSE, <<0>>, TRUE, s, TRUE, TRUE))
     \/ \E ts \in TimesDom : SetTimes(ts) /\ hist' = Append(hist, Rec("set_times", TRUE, ts, FALSE, 0, FALSE, FALSE))
     \/ \E s \in Starts : SetStart(s) /\ hist' = Append(hist, Rec("set_start", FALSE, <<0>>, TRUE, s, FALSE, FALSE))
     \/ \E b \in BOOLEAN : SetND(b) /\ hist' = Append(hist, Rec("set_nd", FALSE, <<0>>, FALSE, 0, TRUE, b))
     \/ \E hasT \in BOOLEAN, ts \in TimesDom, hasS \in BOOLEAN, s \in Starts, hasN \in BOOLEAN :
          /\ (~hasT => ts = << >>) /\ (~hasS => s = 0)
          /\ Replace(hasT, ts, hasS, s, hasN, TRUE)
          /\ hist' = Append(hist, Rec("replace", hasT, IF hasT THEN ts ELSE <<0>>, hasS, s, hasN, TRUE))

MCSpec == MCInit /\ [][MCNext]_mvars

Complete == Len(hist) = MAXLEN \/ (Len(hist) = 1 /\ rd.live = 0)
ASSUME TLCSet(2, << >>) /\ TLCSet(4, 0)
Emit ==
  Complete =>
    /\ TLCSet(4, TLCGet(4) + 1)
    /\ (TLCGet(4) % STRIDE = 0 => TLCSet(2, Append(TLCGet(2), [ops |-> hist])))
Export ==
  /\ PrintT(<<"HISTORIES", TLCGet(4)>>)
  /\ IF "OUT_FILE" \in DOMAIN IOEnv THEN JsonSerialize(IOEnv.OUT_FILE, TLCGet(2)) ELSE TRUE
=============================================================================
