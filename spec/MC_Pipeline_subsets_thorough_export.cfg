SPECIFICATION OneSpec
CONSTANTS
  FAMILY = "subsets"
  MAXSTEPS = 3
  MAXTICK = 0
  MAXLEN = 0
  STRIDE = 4
CHECK_DEADLOCK FALSE
