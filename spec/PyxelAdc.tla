------------------------------- MODULE PyxelAdc -------------------------------
(***************************************************************************)
(* Analog-to-digital conversion.  Property C16.                            *)
(*  - the ideal quantiser  Quantise(v, lo, hi, b)  and its laws (bounded,  *)
(*    monotone, saturating, stored wide enough);                            *)
(*  - the successive-approximation converter as a state machine doing the  *)
(*    binary search bit by bit (apply_sar_adc), and the law that it equals  *)
(*    the quantiser of the range 0 .. vmax with 2^b levels.                 *)
(* Voltages are integers (multiples of a dyadic unit, so the floating      *)
(* point arithmetic of the implementation is exact on them).               *)
(***************************************************************************)
EXTENDS Integers, Sequences, FiniteSets, TLC

RECURSIVE Pow2(_)
Pow2(k) == IF k <= 0 THEN 1 ELSE 2 * Pow2(k - 1)

Clip(v, lo, hi) == IF v < lo THEN lo ELSE IF v > hi THEN hi ELSE v
FullScale(b) == Pow2(b) - 1

\* simple ADC: truncation of the clipped, normalised voltage
Quantise(v, lo, hi, b) == ((Clip(v, lo, hi) - lo) * FullScale(b)) \div (hi - lo)

\* stored type: the narrowest of 8/16/32/64 bits that holds b bits
Width(b) == IF b <= 8 THEN 8 ELSE IF b <= 16 THEN 16 ELSE IF b <= 32 THEN 32 ELSE 64

VARIABLES b, vmax, v, ref, rem, code, bit

avars == << b, vmax, v, ref, rem, code, bit >>

\* one comparison of the binary search: bit (b - 1 - bit) is set iff the remaining
\* voltage reaches the reference, which is then subtracted; the reference halves
SarStep ==
  /\ bit < b
  /\ IF rem >= ref
       THEN code' = code + Pow2(b - (bit + 1)) /\ rem' = rem - ref
       ELSE UNCHANGED << code, rem >>
  /\ ref' = ref \div 2
  /\ bit' = bit + 1
  /\ UNCHANGED << b, vmax, v >>

AInitWith(bb, mx, vv) ==
  /\ b = bb /\ vmax = mx /\ v = vv
  /\ ref = mx \div 2 /\ rem = vv /\ code = 0 /\ bit = 0

Done == bit = b

\* C16 for the successive-approximation converter
C16_SarBounded == 0 <= code /\ code <= FullScale(b)
C16_SarIsBinarySearch ==         \* when finished: the quantiser with 2^b levels on 0 .. vmax, saturating
  Done => code = (IF v < 0 THEN 0 ELSE IF v >= vmax THEN FullScale(b) ELSE (v * Pow2(b)) \div vmax)
C16_WidthHolds == Width(b) >= b
=============================================================================
