----------------------------- MODULE StorageTrace -----------------------------
(* Validation of save / load round trips of real detectors against PyxelStorage. *)
(* Trace = [det (the abstract detector that was built), events]; events:         *)
(*   save name ; modify c v (the in-memory detector changes afterwards) ;         *)
(*   load name, got (projection of the loaded detector), propsok, typeok          *)
EXTENDS PyxelStorage, TLCExt, Json, IOUtils
Traces == JsonDeserialize(IOEnv.TRACE_FILE)
VARIABLES tid, l
tvars == << gvars, tid, l >>
Tr == Traces[tid]
Ev == Tr.events[l]
Is(e) == l <= Len(Tr.events) /\ Tr.events[l].e = e
TInit == tid \in 1 .. Len(Traces) /\ l = 1 /\ GInitWith(Traces[tid].det)
Step == l' = l + 1 /\ UNCHANGED tid
TSave == Is("save") /\ Save(Ev.name) /\ Step
TModify == Is("modify") /\ Modify(Ev.c, Ev.v) /\ Step
TLoad ==
  /\ Is("load") /\ Load(Ev.name)
  /\ LET want == files[Ev.name] IN
       /\ \A c \in Containers : Ev.got[c] = want.data[c]        \* every container, whatever subset was initialised
       /\ Ev.typeok /\ Ev.propsok                                \* same detector type, geometry, environment, characteristics
  /\ Step
Diag ==
  /\ "DIAG" \in DOMAIN IOEnv /\ l <= Len(Tr.events)
  /\ ~ ENABLED (TSave \/ TModify \/ TLoad)
  /\ PrintT(<<"EXPECTED", tid, l, ToJson([want |-> IF Ev.e = "load" /\ Ev.name \in DOMAIN files THEN files[Ev.name].data ELSE det.data])>>)
  /\ FALSE /\ UNCHANGED tvars
TNext == TSave \/ TModify \/ TLoad \/ Diag
TSpec == TInit /\ [][TNext]_tvars
Accepted == l = Len(Tr.events) + 1
ASSUME TLCSet(1, {}) /\ TLCSet(3, [t \in 1 .. Len(Traces) |-> 0])
Mark ==
  /\ (Accepted => TLCSet(1, TLCGet(1) \cup {tid}))
  /\ (l > TLCGet(3)[tid] => TLCSet(3, [TLCGet(3) EXCEPT ![tid] = l]))
Verdict ==
  /\ PrintT(<<"ACCEPTED", TLCGet(1)>>)
  /\ PrintT(<<"PROGRESS", TLCGet(3)>>)
=============================================================================
