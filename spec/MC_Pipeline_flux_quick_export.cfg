SPECIFICATION OneSpec
CONSTANTS
  FAMILY = "flux"
  MAXSTEPS = 0
  MAXTICK = 6
  MAXLEN = 6
  STRIDE = 4
CHECK_DEADLOCK FALSE
