SPECIFICATION TSpec
INVARIANT C05_DisabledIgnored
INVARIANT C05_Labelled
INVARIANT C06_Frame
CONSTRAINT Mark
POSTCONDITION Verdict
CHECK_DEADLOCK FALSE
