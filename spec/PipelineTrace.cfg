SPECIFICATION TSpec
INVARIANT C01_NeverAWrongCall
INVARIANT C02_Clock
INVARIANT C02_StepStart
INVARIANT C03_Faithful
INVARIANT C03_Complete
INVARIANT C09_Propagates
INVARIANT C09_Identity
CONSTRAINT Mark
POSTCONDITION Verdict
CHECK_DEADLOCK FALSE
