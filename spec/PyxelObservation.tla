-------------------------- MODULE PyxelObservation --------------------------
(***************************************************************************)
(* Observation mode: the parameter space, the runs that realise it, their  *)
(* isolation from each other and from the caller's objects, the order      *)
(* freedom of parallel execution, labelling of the merged result, and      *)
(* failure of a run.   Properties C05 C06 C07 C09(observation) C01(modes). *)
(*                                                                         *)
(* Abstraction.  A parameter value is a token: 0 is the value configured   *)
(* in the user's objects ("default"), 1.. are the swept values.  A run is  *)
(* its vector of *effective* tokens, one per declared parameter.  The data *)
(* a run produces is an injective integer code of the values the models    *)
(* actually received, so the data itself attests what was applied.         *)
(*                                                                         *)
(* One action per critical section of Observation.run_pipelines /          *)
(* run_pipelines_with_dask: Plan (get_parameters_item / create_params),    *)
(* MetaRun (the eager first run of the dask path), Exec (deep copy of the  *)
(* user's processor + set + run_pipeline), Fail, Merge.                    *)
(***************************************************************************)
EXTENDS Integers, Sequences, FiniteSets, TLC

VARIABLES
  ocfg,    \* [mode, params: Seq([vals, enabled, sink]), table, dask, fault: effective vector that raises, or << >>]
  phase,   \* "new" "planned" "merged" "failed"
  plan,    \* Seq of effective-token vectors, in run-index order
  nxt,     \* next run index (sequential execution)
  ran,     \* history: SET of [idx, eff, seenMem] (order-free); idx 0 = the dask metadata run
  pending, \* run indices not executed yet
  tree,    \* [run index -> [photon, signal]]  the merged result, by label
  user,    \* the caller's objects: [mem |-> Int]  (detector memory / argument state)
  error    \* [idx, eff]; idx = 0: no error

ovars == << ocfg, phase, plan, nxt, ran, pending, tree, user, error >>

NP == Len(ocfg.params)
Enabled == { j \in 1 .. NP : ocfg.params[j].enabled }
User0 == [mem |-> 5]
\* the value parameter j is configured with on the caller's objects, as a token (0 = the original
\* configuration; the caller may edit it between two runs, see Reconfigure)
Conf(j) == IF "defaults" \in DOMAIN ocfg THEN ocfg.defaults[j] ELSE 0

---------------------------------------------------------------------------
\* The requested parameter space, written from the statement of C05.

RECURSIVE Pow(_, _)
Pow(b, k) == IF k = 0 THEN 1 ELSE b * Pow(b, k - 1)

\* declarative: the SET of effective vectors
ProductSet ==
  { e \in [1 .. NP -> 0 .. 7] :
      \A j \in 1 .. NP :
        IF j \in Enabled THEN \E k \in 1 .. Len(ocfg.params[j].vals) : e[j] = ocfg.params[j].vals[k]
        ELSE e[j] = Conf(j) }

\* implementation-shaped: the SEQUENCE in run-index order (first parameter slowest)
RECURSIVE ProductFrom(_, _)
ProductFrom(j, prefix) ==
  IF j > NP THEN << prefix >>
  ELSE IF j \notin Enabled THEN ProductFrom(j + 1, Append(prefix, Conf(j)))
  ELSE LET vs == ocfg.params[j].vals IN
       LET RECURSIVE Cat(_)
           Cat(k) == IF k > Len(vs) THEN << >>
                     ELSE ProductFrom(j + 1, Append(prefix, vs[k])) \o Cat(k + 1)
       IN Cat(1)

Default == [j \in 1 .. NP |-> Conf(j)]

RECURSIVE SequentialFrom(_)
SequentialFrom(j) ==
  IF j > NP THEN << >>
  ELSE (IF j \in Enabled
          THEN [k \in 1 .. Len(ocfg.params[j].vals) |-> [Default EXCEPT ![j] = ocfg.params[j].vals[k]]]
          ELSE << >>)
       \o SequentialFrom(j + 1)

\* custom: one run per table row; a row holds one token per enabled
\* parameter, in declaration order
EnabledSeq == LET RECURSIVE ES(_)
                  ES(j) == IF j > NP THEN << >>
                           ELSE (IF j \in Enabled THEN << j >> ELSE << >>) \o ES(j + 1)
              IN ES(1)
RowEff(row) ==
  [j \in 1 .. NP |->
     IF j \in Enabled
       THEN row[CHOOSE k \in 1 .. Len(EnabledSeq) : EnabledSeq[k] = j]
       ELSE Conf(j)]
CustomSeq == [r \in 1 .. Len(ocfg.table) |-> RowEff(ocfg.table[r])]

Space ==
  CASE ocfg.mode = "product"    -> ProductFrom(1, << >>)
    [] ocfg.mode = "sequential" -> SequentialFrom(1)
    [] ocfg.mode = "custom"     -> CustomSeq

\* the data a run with effective tokens e produces in bucket b
Code(e, b) ==
  LET RECURSIVE S(_)
      S(j) == IF j > NP THEN 0
              ELSE (IF ocfg.params[j].sink = b THEN e[j] * Pow(8, j - 1) ELSE 0) + S(j + 1)
  IN S(1)

DataOf(e) == [photon |-> Code(e, "photon"), signal |-> Code(e, "signal")]

---------------------------------------------------------------------------
\* Actions

Plan ==
  /\ phase = "new"
  /\ plan' = Space
  /\ pending' = 1 .. Len(Space)
  /\ nxt' = 1
  /\ phase' = "planned"
  /\ UNCHANGED << ocfg, ran, tree, user, error >>

\* fault injection: the run whose effective values equal ocfg.fault raises
Faulty(r) == plan[r] = ocfg.fault

\* The dask path runs the first combination once more, eagerly, to learn the
\* shape of the result; it contributes neither data nor files.  Which
\* combination comes "first" is not specified (the code sorts the values).
MetaRun(r) ==
  /\ phase = "planned" /\ ocfg.dask
  /\ r \in 1 .. Len(plan)
  /\ ~ \E x \in ran : x.idx = 0
  /\ pending = 1 .. Len(plan)
  /\ ran' = ran \cup {[idx |-> 0, eff |-> plan[r], seenMem |-> user.mem]}
  /\ IF Faulty(r)
       THEN phase' = "failed" /\ error' = [idx |-> r, eff |-> plan[r]]
       ELSE UNCHANGED << phase, error >>
  /\ UNCHANGED << ocfg, plan, nxt, pending, tree, user >>

MetaDone == ~ ocfg.dask \/ \E x \in ran : x.idx = 0

\* One run: a private deep copy of the caller's objects, the run's values set
\* on the copy, one exposure.  The caller's objects are not touched.
Exec(r) ==
  /\ phase = "planned" /\ MetaDone
  /\ r \in pending
  /\ ocfg.dask \/ r = nxt                    \* sequential execution follows the run index
  /\ ocfg.dask \/ error.idx = 0
  /\ ran' = ran \cup {[idx |-> r, eff |-> plan[r], seenMem |-> user.mem]}
  /\ pending' = pending \ {r}
  /\ nxt' = nxt + 1
  /\ IF Faulty(r)
       THEN /\ error' = IF error.idx = 0 THEN [idx |-> r, eff |-> plan[r]] ELSE error
            \* sequentially the observation stops here; a parallel scheduler may still
            \* start or finish other runs before the failure surfaces at compute time
            /\ phase' = IF ocfg.dask THEN phase ELSE "failed"
            /\ UNCHANGED tree
       ELSE /\ tree' = (r :> DataOf(plan[r])) @@ tree
            /\ UNCHANGED << phase, error >>
  /\ UNCHANGED << ocfg, plan, user >>

\* Results are gathered (dask: computed).  A failure surfaces here at the latest.
Merge ==
  /\ phase = "planned" /\ MetaDone
  /\ pending = {} \/ (ocfg.dask /\ error.idx # 0)
  /\ phase' = IF error.idx = 0 THEN "merged" ELSE "failed"
  /\ UNCHANGED << ocfg, plan, nxt, ran, pending, tree, user, error >>

\* The same Observation, detector and pipeline objects are run once more (a session): the
\* declared parameters, the caller's objects and therefore the whole space are what they were.
Rerun ==
  /\ phase \in {"merged", "failed"}
  /\ phase' = "new"
  /\ plan' = << >> /\ nxt' = 1 /\ ran' = {} /\ pending' = {} /\ tree' = << >>
  /\ error' = [idx |-> 0, eff |-> << >>]
  /\ UNCHANGED << ocfg, user >>

\* Between two runs the caller edits, on his own objects, the value parameter j is configured with.
\* The next run must see it wherever the parameter is not stepped (sequential mode, disabled
\* parameters) - nothing computed for an earlier run may be re-used.
Reconfigure(j, tok) ==
  /\ phase = "new"
  /\ j \in 1 .. NP
  /\ ocfg' = [x \in DOMAIN ocfg \cup {"defaults"} |->
               IF x = "defaults" THEN [Default EXCEPT ![j] = tok] ELSE ocfg[x]]
  /\ UNCHANGED << phase, plan, nxt, ran, pending, tree, user, error >>

ONext == Plan \/ (\E r \in 1 .. Len(plan) : MetaRun(r)) \/ (\E r \in pending : Exec(r)) \/ Merge

OInitWith(c) ==
  /\ ocfg = c
  /\ phase = "new"
  /\ plan = << >>
  /\ nxt = 1
  /\ ran = {}
  /\ pending = {}
  /\ tree = << >>
  /\ user = User0
  /\ error = [idx |-> 0, eff |-> << >>]

---------------------------------------------------------------------------
\* C05

RangeOf(s) == { s[k] : k \in 1 .. Len(s) }

C05_ProductIsTheCartesianProduct ==
  (phase # "new" /\ ocfg.mode = "product") =>
     /\ RangeOf(plan) = ProductSet
     /\ Len(plan) = Cardinality(ProductSet)          \* none twice (value lists are duplicate-free)

C05_SequentialOneAtATime ==
  (phase # "new" /\ ocfg.mode = "sequential") =>
     \A r \in 1 .. Len(plan) :
        Cardinality({ j \in 1 .. NP : plan[r][j] # Conf(j) }) <= 1      \* all others keep their configured values

C05_SequentialCount ==
  (phase # "new" /\ ocfg.mode = "sequential") =>
     Len(plan) = LET RECURSIVE Sm(_)
                     Sm(j) == IF j > NP THEN 0
                              ELSE (IF j \in Enabled THEN Len(ocfg.params[j].vals) ELSE 0) + Sm(j + 1)
                 IN Sm(1)

C05_DisabledIgnored ==
  \A r \in 1 .. Len(plan) : \A j \in 1 .. NP : j \notin Enabled => plan[r][j] = Conf(j)

RealRuns == { x \in ran : x.idx # 0 }

C05_ExactlySpace ==
  phase = "merged" =>
     /\ \A r \in 1 .. Len(plan) : Cardinality({ x \in RealRuns : x.idx = r }) = 1
     /\ \A x \in RealRuns : x.eff = plan[x.idx]
     /\ DOMAIN tree = 1 .. Len(plan)

C05_Labelled ==
  \A r \in DOMAIN tree : tree[r] = DataOf(plan[r])

\* C06: a run sees the caller's state as it was before the call, whatever ran before
C06_Isolated == \A x \in ran : x.seenMem = User0.mem
C06_Frame    == user = User0

\* C07: whatever the execution order, the merged result is the same function of the space
C07_ScheduleIndependent ==
  phase = "merged" => tree = [r \in 1 .. Len(plan) |-> DataOf(plan[r])]

\* C09: a failing run fails the observation; sequentially, later runs never start
C09_FailStopsSequential ==
  (phase = "failed" /\ ~ ocfg.dask) =>
     /\ \A x \in RealRuns : x.idx <= error.idx
     /\ error.eff = plan[error.idx]
C09_NoMergeAfterFailure == (phase = "failed" => ~ ENABLED ONext) /\ (phase = "merged" => error.idx = 0)
C09_FaultAlwaysSurfaces ==
  ((\E r \in 1 .. Len(plan) : Faulty(r)) /\ phase # "new" /\ ~ ENABLED ONext) => phase = "failed"
=============================================================================
