-------------------------- MODULE PyxelConservation --------------------------
(***************************************************************************)
(* Charge-handling models as per-pixel transition functions.  C15.         *)
(* Quantities are integers; fractions are dyadic  [n, e]  =  n / 2^e  and   *)
(* the inputs are chosen with enough factors of two that every division is *)
(* exact - the floating point arithmetic of the implementation is then     *)
(* exact as well, so values can be compared exactly.                       *)
(***************************************************************************)
EXTENDS Integers, Sequences, FiniteSets, TLC

RECURSIVE Pow2(_)
Pow2(k) == IF k <= 0 THEN 1 ELSE 2 * Pow2(k - 1)
Frac(v, q) == (v * q.n) \div Pow2(q.e)                \* v * n / 2^e  (exact by construction)
Exact(v, q) == (v * q.n) % Pow2(q.e) = 0
Min(a, b) == IF a < b THEN a ELSE b
RECURSIVE Sum(_)
Sum(s) == IF s = << >> THEN 0 ELSE Head(s) + Sum(Tail(s))

\* simple collection adds exactly the generated charge
Collect(pixel, charge) == pixel + charge
\* photo-conversion without sampling: exactly efficiency x photons
Convert(ph, q) == Frac(ph, q)
\* full-well limiting
FullWell(x, cap) == Min(x, cap)

\* inter-pixel coupling kernel (numerators over a common denominator D)
Kernel(c, d, a, D) == << d, c - a, d, c + a, D - 4 * (c + d), c + a, d, c - a, d >>

\* ---- persistence: transcription of compute_simple_persistence / compute_persistence
\* dens, tf: sequences of dyadic fractions per trap species; caps: capacities or << >>
ClipDiff(diff, trapped, empty) ==
  IF diff < 0 THEN (IF diff < -trapped THEN -trapped ELSE diff)
  ELSE (IF diff > empty THEN empty ELSE diff)

RECURSIVE Capture(_, _, _, _, _)
Capture(i, pixel, trapped, dens, tf) ==          \* first loop: species in order, each on the current pixel charge
  IF i > Len(trapped) THEN [pixel |-> pixel, trapped |-> trapped]
  ELSE LET avail == Frac(pixel, dens[i])
           empty == avail - trapped[i]
           diff == ClipDiff(Frac(empty, tf[i]), trapped[i], empty)
       IN Capture(i + 1, pixel - diff, [trapped EXCEPT ![i] = trapped[i] + diff], dens, tf)

RECURSIVE Release(_, _, _, _, _, _, _)
Release(i, pixel, acc, trapped, dens, caps, pdiff) ==
  \* second loop: a trap holding more than it can (for the pixel charge left after capture) gives the
  \* surplus back; the charge given back by ALL species is accumulated in the pixel
  IF i > Len(trapped) THEN [pixel |-> acc, trapped |-> trapped]
  ELSE LET avail == Frac(pixel, dens[i])
           maxi == IF caps = << >> THEN avail ELSE Min(avail, caps[i])
           clipped == IF pdiff < 0 /\ trapped[i] > maxi THEN maxi ELSE trapped[i]
       IN Release(i + 1, pixel, acc + (trapped[i] - clipped), [trapped EXCEPT ![i] = clipped], dens, caps, pdiff)

PersistStep(pixel, trapped, dens, tf, caps) ==
  LET c == Capture(1, pixel, trapped, dens, tf)
  IN Release(1, c.pixel, c.pixel, c.trapped, dens, caps, c.pixel - pixel)

\* C15: pixel charge plus trapped charge is constant over a step, trapped charge never negative
Conserved(pixel, trapped, out) == out.pixel + Sum(out.trapped) = pixel + Sum(trapped)
NonNegative(out) == \A i \in 1 .. Len(out.trapped) : out.trapped[i] >= 0
=============================================================================
