-------------------------- MODULE ContainersTrace --------------------------
(* Batch validation of operation histories executed on real containers.     *)
(* Trace = [kind, events]; event = [op, arg, out, after, ret] where `after` *)
(* is the projection of the real container after the operation, `out` is    *)
(* "ok" or "error" and `ret` the value read / the comparison result         *)
(* (1 TRUE, 0 FALSE, -1 raised, 2 the two orders disagree).                 *)
EXTENDS PyxelContainers, TLCExt, Json, IOUtils

Traces == JsonDeserialize(IOEnv.TRACE_FILE)
VARIABLES tid, l
tvars == << cvars, tid, l >>
Tr == Traces[tid]
Ev == Tr.events[l]
IsOp(o) == l <= Len(Tr.events) /\ Tr.events[l].op = o

TInit ==
  /\ tid \in 1 .. Len(Traces)
  /\ l = 1
  /\ CInitWith(Traces[tid].kind, EmptyC)

Matches ==
  LET h == hist'[Len(hist')] IN
    /\ h.out = Ev.out
    /\ h.after = Ev.after
    /\ (Ev.op \in {"read", "eq"} /\ Ev.out = "ok" => last'.ret = Ev.ret)

TStep ==
  /\ l <= Len(Tr.events)
  /\ \/ IsOp("set") /\ Set(Ev.arg)
     \/ IsOp("update") /\ Update(Ev.arg)
     \/ IsOp("iadd") /\ IAddEmpty(Ev.arg)
     \/ IsOp("iadd") /\ IAddHolding(Ev.arg, Ev.out = "ok", Ev.after.val, Ev.after.neg, Ev.after.nan)
     \/ IsOp("reset") /\ Reset
     \/ IsOp("read") /\ Read
     \/ IsOp("eq") /\ Eq(Ev.arg.carrier, Ev.ret)
  /\ Matches
  /\ l' = l + 1
  /\ UNCHANGED tid

Diag ==
  /\ "DIAG" \in DOMAIN IOEnv
  /\ l <= Len(Tr.events)
  /\ ~ ENABLED TStep
  /\ PrintT(<<"EXPECTED", tid, l, ToJson([cont |-> cont, kind |-> kind])>>)
  /\ FALSE
  /\ UNCHANGED tvars

TNext == TStep \/ Diag
TSpec == TInit /\ [][TNext]_tvars
Accepted == l = Len(Tr.events) + 1

ASSUME TLCSet(1, {}) /\ TLCSet(3, [t \in 1 .. Len(Traces) |-> 0])
Mark ==
  /\ (Accepted => TLCSet(1, TLCGet(1) \cup {tid}))
  /\ (l > TLCGet(3)[tid] => TLCSet(3, [TLCGet(3) EXCEPT ![tid] = l]))
Verdict ==
  /\ PrintT(<<"ACCEPTED", TLCGet(1)>>)
  /\ PrintT(<<"PROGRESS", TLCGet(3)>>)
=============================================================================
