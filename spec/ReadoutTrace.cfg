SPECIFICATION TSpec
INVARIANT R_CacheFollows
INVARIANT R_StartBeforeFirst
INVARIANT R_ErrorLeavesUntouched
INVARIANT R_BuiltMonotone
INVARIANT R_StepsSumToLast
CONSTRAINT Mark
POSTCONDITION Verdict
CHECK_DEADLOCK FALSE
