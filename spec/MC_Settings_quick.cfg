SPECIFICATION MCSpec
CONSTANTS
  MAXLEN = 1
  STRIDE = 1
INVARIANT C08_Frame
INVARIANT C08_Rejected
INVARIANT C12_AllInRange
INVARIANT C12_SamePolicy
CONSTRAINT Emit
POSTCONDITION Export
CHECK_DEADLOCK FALSE
