------------------------------- MODULE MC_Seed -------------------------------
EXTENDS PyxelSeed
MCInit == \E p \in 0 .. 1, q \in BOOLEAN : DInit([stream |-> U, pos |-> p, gauss |-> q])
MCSpec == MCInit /\ [][DNext]_dvars
Bound == Len(blocks) <= 3
=============================================================================
