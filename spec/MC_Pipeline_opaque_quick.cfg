SPECIFICATION MCSpec
CONSTANTS
  FAMILY = "opaque"
  MAXSTEPS = 2
  MAXTICK = 0
  MAXLEN = 0
  STRIDE = 8
INVARIANT C01_NeverAWrongCall
INVARIANT C01_AllCallsWhenDone
INVARIANT C01_Rejected
INVARIANT C02_Clock
INVARIANT C02_StepStart
INVARIANT C02_EosDefined
INVARIANT C02_OncePerReadout
INVARIANT C03_Faithful
INVARIANT C03_Complete
INVARIANT C03_PassThrough
INVARIANT C09_Propagates
INVARIANT C09_Identity
INVARIANT C17_NonDestructiveF
INVARIANT C17_DestructiveF
INVARIANT C09_Stops
CHECK_DEADLOCK FALSE
