SPECIFICATION MCSpec
CONSTANTS
  Procs = {1, 2}
  MaxClock = 2
  Files = {"a"}
  STRIDE = 37
INVARIANT C19_FreshDir
INVARIANT C19_Distinct
INVARIANT C19_Attributed
PROPERTY C19_Terminates
CONSTRAINT Emit
POSTCONDITION Export
CHECK_DEADLOCK FALSE
