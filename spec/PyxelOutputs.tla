----------------------------- MODULE PyxelOutputs -----------------------------
(***************************************************************************)
(* The output-directory protocol (create_output_directory: read the clock  *)
(* once, then try to create  <prefix><timestamp>[_<n>]  until a mkdir      *)
(* succeeds) and the no-clobber file system, for several simulations       *)
(* started into the same parent folder.  Property C19.                     *)
(*                                                                         *)
(* One action per system call: ReadClock(p), TryMkdir(p) - the atomic      *)
(* test-and-create of mkdir(exist_ok=False) - and Write(p, f).             *)
(***************************************************************************)
EXTENDS Integers, Sequences, FiniteSets, TLC

CONSTANTS Procs, MaxClock, Files

VARIABLES clock,   \* the wall clock, in seconds
          dirs,    \* names existing in the parent folder: <<stamp, n>>
          dirs0,   \* names that existed before any simulation started
          proc,    \* [Procs -> [pc, stamp, n, own]]
          files,   \* [<<dirname, file>> -> writer]  content = who wrote it
          sched    \* history of scheduled system calls: Seq(<<action, p>>)

ovars == << clock, dirs, dirs0, proc, files, sched >>

NONE == << -1, -1 >>

ReadClock(p) ==
  /\ proc[p].pc = "start"
  /\ proc' = [proc EXCEPT ![p].pc = "try", ![p].stamp = clock]
  /\ sched' = Append(sched, << "clock", p >>)
  /\ UNCHANGED << clock, dirs, dirs0, files >>

\* mkdir(parents=True, exist_ok=False): succeeds iff the name does not exist - atomically
TryMkdir(p) ==
  /\ proc[p].pc = "try"
  /\ LET name == << proc[p].stamp, proc[p].n >> IN
       IF name \in dirs
         THEN /\ proc' = [proc EXCEPT ![p].n = @ + 1]           \* FileExistsError: next suffix
              /\ UNCHANGED dirs
         ELSE /\ dirs' = dirs \cup {name}
              /\ proc' = [proc EXCEPT ![p].pc = "own", ![p].own = name]
  /\ sched' = Append(sched, << "mkdir", p >>)
  /\ UNCHANGED << clock, dirs0, files >>

\* a writer never changes a file that already exists
Write(p, f) ==
  /\ proc[p].pc = "own"
  /\ ~ \E k \in 1 .. Len(sched) : sched[k] = << "write", p, f >>      \* each requested file once
  /\ LET path == << proc[p].own, f >> IN
       files' = IF path \in DOMAIN files THEN files ELSE (path :> p) @@ files
  /\ sched' = Append(sched, << "write", p, f >>)
  /\ UNCHANGED << clock, dirs, dirs0, proc >>

Finish(p) ==
  /\ proc[p].pc = "own"
  /\ \A f \in Files : << proc[p].own, f >> \in DOMAIN files
  /\ proc' = [proc EXCEPT ![p].pc = "done"]
  /\ UNCHANGED << clock, dirs, dirs0, files, sched >>

Tick ==
  /\ clock < MaxClock
  /\ clock' = clock + 1
  /\ sched' = Append(sched, << "tick", 0 >>)
  /\ UNCHANGED << dirs, dirs0, proc, files >>

GNext == (\E p \in Procs : ReadClock(p) \/ TryMkdir(p) \/ Finish(p) \/ (\E f \in Files : Write(p, f))) \/ Tick

GInit(pre) ==
  /\ clock = 0
  /\ dirs = pre /\ dirs0 = pre
  /\ proc = [p \in Procs |-> [pc |-> "start", stamp |-> -1, n |-> 0, own |-> NONE]]
  /\ files = << >>
  /\ sched = << >>

Fair == \A p \in Procs : WF_ovars(ReadClock(p) \/ TryMkdir(p) \/ Finish(p) \/ (\E f \in Files : Write(p, f)))

---------------------------------------------------------------------------
Owners == { p \in Procs : proc[p].own # NONE }
\* C19: every simulation writes into a directory it has freshly created
C19_FreshDir == \A p \in Owners : proc[p].own \notin dirs0
C19_Distinct == \A p, q \in Owners : p # q => proc[p].own # proc[q].own
\* C19: every file in a simulation's directory was written by that simulation
C19_Attributed == \A path \in DOMAIN files : \E p \in Owners : proc[p].own = path[1] /\ files[path] = p
\* C19: every started simulation eventually owns a directory (finitely many colliding names)
C19_Terminates == <>(\A p \in Procs : proc[p].pc = "done")
=============================================================================
