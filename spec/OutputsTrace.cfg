SPECIFICATION TSpec
CONSTANTS
  Procs = {1, 2, 3}
  MaxClock = 100
  Files = {"a"}
INVARIANT C19_FreshDir
INVARIANT C19_Distinct
CONSTRAINT Mark
POSTCONDITION Verdict
CHECK_DEADLOCK FALSE
