SPECIFICATION OneSpec
CONSTANTS
  FAMILY = "ranges"
  MAXV = 3
  STRIDE = 100
CHECK_DEADLOCK FALSE
