SPECIFICATION OneSpec
CONSTANTS
  FAMILY = "opaque"
  MAXSTEPS = 3
  MAXTICK = 0
  MAXLEN = 0
  STRIDE = 1
CHECK_DEADLOCK FALSE
