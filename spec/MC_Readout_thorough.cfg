SPECIFICATION MCSpec
CONSTANTS
  MAXLEN = 3
  MAXTICK = 3
  STRIDE = 150
INVARIANT R_CacheFollows
INVARIANT R_StartBeforeFirst
INVARIANT R_ErrorLeavesUntouched
INVARIANT R_BuiltMonotone
INVARIANT R_StepsSumToLast
CONSTRAINT Emit
POSTCONDITION Export
CHECK_DEADLOCK FALSE
