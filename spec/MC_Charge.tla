------------------------------ MODULE MC_Charge ------------------------------
EXTENDS PyxelCharge, TLCExt, Json, IOUtils, SequencesExt
CONSTANTS MAXLEN, STRIDE

Arrays == { [p \in 1 .. NPix |-> 1], [p \in 1 .. NPix |-> IF p = 2 THEN 2 ELSE 0], [p \in 1 .. NPix |-> 0] }
\* position classes per axis: negative, 0, pixel centre, exactly on an inner border,
\* last pixel, exactly the outer edge (outside), beyond
PosV == {-1, 0, SV \div 2, SV, R * SV - 1, R * SV, R * SV + SV}
PosH == {-1, 0, SH \div 2, SH, C * SH - 1, C * SH, C * SH + SH}
Cl(n, v, h) == [n |-> n, ver |-> v, hor |-> h, label |-> 0]
ClusterSets(_z) ==
  { << Cl(1, v, SH \div 2) >> : v \in PosV }
  \cup { << Cl(2, SV \div 2, h) >> : h \in PosH }
  \cup { << Cl(1, SV \div 2, SH \div 2), Cl(2, v, SH + 1) >> : v \in {-1, SV, R * SV} }
  \cup { << Cl(1, -1, -1) >>, << Cl(1, R * SV, C * SH) >> }

MCNext ==
  /\ Len(hist) < MAXLEN
  /\ \/ \E a \in Arrays : AddArray(a)
     \/ \E cs \in ClusterSets(0) : AddClusters(cs)
     \/ Remove(<< >>) \/ Remove(<<0>>) \/ Remove(<<1>>)
     \/ Reset \/ Read
MCSpec == QInit /\ [][MCNext]_qvars

\* a history is worth replaying when it ends with a read
ASSUME TLCSet(2, << >>) /\ TLCSet(4, 0)
Emit ==
  (Len(hist) = MAXLEN /\ hist[Len(hist)].op = "read") =>
    /\ TLCSet(4, TLCGet(4) + 1)
    /\ (TLCGet(4) % STRIDE = 0 => TLCSet(2, Append(TLCGet(2), [k \in 1 .. Len(hist) |-> [op |-> hist[k].op, arg |-> hist[k].arg]])))
Export ==
  /\ PrintT(<<"HISTORIES", TLCGet(4)>>)
  /\ IF "OUT_FILE" \in DOMAIN IOEnv THEN JsonSerialize(IOEnv.OUT_FILE, TLCGet(2)) ELSE TRUE
=============================================================================
