------------------------------ MODULE PyxelSeed ------------------------------
(***************************************************************************)
(* The process-wide random generator and the temporary-seed protocol of    *)
(* pyxel.util.set_random_seed (save state, seed, ... draws ..., restore in *)
(* a `finally`), nested as "pipeline seed around model seed".  C04.        *)
(*                                                                         *)
(* Generator state: [stream, pos, gauss] - which stream (a seed, or U = 0   *)
(* for the unseeded process stream), how far it has advanced, and whether  *)
(* a second Gaussian deviate is pending in the generator's cache (legacy   *)
(* numpy RandomState: normal draws are produced in pairs).                 *)
(***************************************************************************)
EXTENDS Integers, Sequences, FiniteSets, TLC

CONSTANTS Seeds, MaxDepth, MaxDraws

VARIABLES gen,     \* current generator state
          stack,   \* saved states, one per open seeded block (innermost first)
          blocks,  \* history: Seq([seed, draws, saved, open, raised]) one per block ever entered
          cur,     \* indices into `blocks` of the open blocks (innermost first)
          ndraws   \* total draws so far (bounds the model)

dvars == << gen, stack, blocks, cur, ndraws >>

NONE == -1            \* "no seed given": the block is a no-op
U == 0                \* the unseeded process stream
Fresh(seed) == [stream |-> seed, pos |-> 0, gauss |-> FALSE]     \* numpy.random.seed(seed)

\* a uniform-like draw consumes one value; a normal draw consumes two values
\* every other time and keeps the second deviate in the cache
Advance(g, kind) ==
  IF kind = "uniform" THEN [g EXCEPT !.pos = g.pos + 1]
  ELSE IF g.gauss THEN [g EXCEPT !.gauss = FALSE]
       ELSE [g EXCEPT !.pos = g.pos + 2, !.gauss = TRUE]

Token(g, kind) == << g.stream, g.pos, g.gauss, kind >>        \* the value a draw returns

Enter(seed) ==
  /\ Len(cur) < MaxDepth
  /\ blocks' = Append(blocks, [seed |-> seed, draws |-> << >>, saved |-> gen, open |-> TRUE, raised |-> FALSE])
  /\ cur' = << Len(blocks) + 1 >> \o cur
  /\ IF seed = NONE
       THEN UNCHANGED << gen, stack >>                       \* no-op block
       ELSE /\ stack' = << gen >> \o stack                  \* previous_state = get_state()
            /\ gen' = Fresh(seed)                            \* numpy.random.seed(seed)
  /\ UNCHANGED ndraws

Draw(kind) ==
  /\ ndraws < MaxDraws
  /\ gen' = Advance(gen, kind)
  /\ ndraws' = ndraws + 1
  \* the draw comes from the stream of the innermost *seeded* open block, if any
  /\ LET sb == SelectSeq(cur, LAMBDA b : blocks[b].seed # NONE) IN
       IF sb = << >> THEN UNCHANGED blocks
       ELSE blocks' = [blocks EXCEPT ![Head(sb)].draws = Append(@, Token(gen, kind))]
  /\ UNCHANGED << stack, cur >>

\* leaving the innermost block, normally or by an exception: the `finally`
Leave(raised) ==
  /\ cur # << >>
  /\ LET b == Head(cur) IN
       /\ blocks' = [blocks EXCEPT ![b].open = FALSE, ![b].raised = raised]
       /\ IF blocks[b].seed = NONE
            THEN UNCHANGED << gen, stack >>
            ELSE /\ gen' = Head(stack)                      \* set_state(previous_state)
                 /\ stack' = Tail(stack)
  /\ cur' = Tail(cur)
  /\ UNCHANGED ndraws

DNext == (\E s \in Seeds \cup {NONE} : Enter(s)) \/ (\E k \in {"uniform", "normal"} : Draw(k))
         \/ Leave(FALSE) \/ Leave(TRUE)

DInit(g0) == gen = g0 /\ stack = << >> /\ blocks = << >> /\ cur = << >> /\ ndraws = 0

---------------------------------------------------------------------------
\* C04

\* The k-th draw of a seeded block is what the seed's own stream gives, whatever the
\* generator held before and whatever ran earlier - unless an inner seeded block
\* intervened (it restores, so the outer stream continues where it was).
RECURSIVE Replay(_, _)
Replay(g, ds) == IF ds = << >> THEN TRUE
                 ELSE /\ Head(ds) = Token(g, Head(ds)[4])
                      /\ Replay(Advance(g, Head(ds)[4]), Tail(ds))

C04_Reproducible ==
  \A b \in 1 .. Len(blocks) : blocks[b].seed # NONE => Replay(Fresh(blocks[b].seed), blocks[b].draws)

\* When a seeded block has finished (normally or by an error) and no seeded block is
\* open, the generator is exactly where the unseeded code left it.
C04_Restored ==
  (stack = << >>) =>
     \A b \in 1 .. Len(blocks) :
       (blocks[b].seed # NONE /\ ~ blocks[b].open) => gen.stream # blocks[b].seed \/ gen.stream = blocks[b].saved.stream

C04_StackDiscipline == Len(stack) = Cardinality({ k \in 1 .. Len(cur) : blocks[cur[k]].seed # NONE })

\* seeding never leaks: outside every seeded block the stream is the one the process had
C04_NoLeak == (stack = << >>) => gen.stream = U
=============================================================================
