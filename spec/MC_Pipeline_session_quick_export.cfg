SPECIFICATION OneSpec
CONSTANTS
  FAMILY = "session"
  MAXSTEPS = 2
  MAXTICK = 0
  MAXLEN = 0
  STRIDE = 1
CHECK_DEADLOCK FALSE
