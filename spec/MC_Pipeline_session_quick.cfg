SPECIFICATION MCSpec
CONSTANTS
  FAMILY = "session"
  MAXSTEPS = 2
  MAXTICK = 0
  MAXLEN = 0
  STRIDE = 1
INVARIANT C01_NeverAWrongCall
INVARIANT C01_AllCallsWhenDone
INVARIANT C01_Rejected
INVARIANT C02_Clock
INVARIANT C02_StepStart
INVARIANT C02_EosDefined
INVARIANT C02_OncePerReadout
INVARIANT C03_Faithful
INVARIANT C03_Complete
INVARIANT C03_PassThrough
INVARIANT C09_Propagates
INVARIANT C09_Identity
INVARIANT C17_NonDestructiveF
INVARIANT C17_DestructiveF
CHECK_DEADLOCK FALSE
