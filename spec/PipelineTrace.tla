--------------------------- MODULE PipelineTrace ---------------------------
(* Batch trace validation for PyxelPipeline.                               *)
(*                                                                         *)
(* TRACE_FILE holds a JSON array of recorded executions of the real code:  *)
(*   [ {cfg: <configuration>, events: [ <event>, ... ]}, ... ]             *)
(* Events (one per observation made of the implementation):                *)
(*   call     - a probe model was entered: step, g, name, args (canonical  *)
(*              text of the keyword arguments it received), clock (what    *)
(*              the detector showed), seen (projected bucket contents)     *)
(*   done     - run_mode returned: result = projected DataTree             *)
(*   failed   - run_mode raised: exc, msg, g, name (from the notes)        *)
(*   rejected - the schedule was refused before any model ran              *)
(* A trace is accepted iff it is a behaviour of PyxelPipeline for its      *)
(* configuration.  Steps of the specification that the implementation does *)
(* not let us observe without hooks (BeginStep, NextGroup, ...) are taken  *)
(* silently; the machine is deterministic, so they never branch.           *)
EXTENDS PyxelPipeline, TLCExt, Json, IOUtils

Traces == JsonDeserialize(IOEnv.TRACE_FILE)

VARIABLES tid, l, closed
tvars == << vars, tid, l, closed >>

Ev == Traces[tid].events[l]
HasEv(e) == l <= Len(Traces[tid].events) /\ Traces[tid].events[l].e = e

TInit ==
  /\ tid \in 1 .. Len(Traces)
  /\ l = 1
  /\ closed = FALSE
  /\ InitWith(Traces[tid].cfg)

\* Real library models (flux, conversion, collection - C17) do not log; when a
\* trace is marked `real` their calls are steps the recording cannot see.
RealKinds == {"flux", "conv", "collect", "loaddet"}
IsReal == "real" \in DOMAIN Traces[tid] /\ Traces[tid].real
AtRealModel ==
  /\ pc = "run" /\ g <= NG
  /\ IF m <= Len(cfg.pipe[g]) THEN cfg.pipe[g][m].kind \in RealKinds ELSE FALSE

Silent ==
  /\ \/ Validate \/ InitialEmpty \/ BeginStep \/ NextGroup \/ SkipDisabled \/ EndStep \/ Finish
     \/ (IsReal /\ AtRealModel /\ RunModel)
  /\ UNCHANGED << tid, l, closed >>

\* A field that the recording left out is not compared: each property's
\* check records the fields its statement speaks about.
Has(f) == f \in DOMAIN Ev
CallMatches(c) ==
  /\ c.step = Ev.step
  /\ c.g = Ev.g
  /\ c.name = Ev.name
  /\ (Has("args")  => c.args = Ev.args)
  /\ (Has("clock") => c.clock = Ev.clock)
  /\ (Has("seen")  => c.seen = Ev.seen)

TCall ==
  /\ HasEv("call")
  /\ ~ (IsReal /\ AtRealModel)
  /\ (RunModel \/ ModelRaise)
  /\ CallMatches(calls'[Len(calls')])
  /\ l' = l + 1
  /\ UNCHANGED << tid, closed >>

\* the returned tree: every slice of a bucket that held data equals the
\* end-of-step content and carries the absolute time; unconstrained where
\* the bucket was empty (the code stores NaN there).
ResultMatches(r) ==
  /\ \A x \in ArrayBuckets :
       /\ Len(r[x]) = Len(result[x])
       /\ \A k \in 1 .. Len(result[x]) :
            result[x][k].level # EMPTY =>
              /\ r[x][k].level = result[x][k].level
              /\ r[x][k].label = result[x][k].label
  /\ r.scene = result["scene"]
  /\ r.data = result["data"]
  /\ (\E k \in 1 .. Len(result["image"]) : result["image"][k].level # EMPTY) => r.imgdt = cfg.imgdt

TDone ==
  /\ HasEv("done")
  /\ pc = "done"
  /\ ~ closed
  /\ (Has("result") => ResultMatches(Ev.result))
  /\ closed' = TRUE /\ l' = l + 1
  /\ UNCHANGED << vars, tid >>

FailureMatches ==
  /\ Ev.noresult
  /\ IF error.g # 0
       THEN /\ Ev.g = GROUPS[error.g]
            /\ Ev.name = error.name
            /\ Ev.msg = error.msg
            /\ Ev.exc = error.exc
       ELSE Ev.exc = error.exc

\* run_mode raised.  Either the run failed (a model raised, or the named
\* deviation at EndStep), or the schedule was refused inside run_mode before
\* any model executed (e.g. times assigned through the Readout setter).
TFailed ==
  /\ HasEv("failed")
  /\ ~ closed
  /\ \/ pc = "failed" /\ (Has("exc") => FailureMatches)
     \/ pc = "rejected" /\ calls = << >>
  /\ closed' = TRUE /\ l' = l + 1
  /\ UNCHANGED << vars, tid >>

TRejected ==
  /\ HasEv("rejected")
  /\ pc = "rejected"
  /\ ~ closed
  /\ closed' = TRUE /\ l' = l + 1
  /\ UNCHANGED << vars, tid >>

\* ---- sessions: the user reconfigures the same objects between two runs
TToggle ==
  /\ HasEv("toggle")
  /\ Toggle(Ev.g, Ev.m)
  /\ l' = l + 1
  /\ UNCHANGED << tid, closed >>

TSetArgs ==
  /\ HasEv("setargs")
  /\ SetArgs(Ev.g, Ev.m, Ev.args)
  /\ l' = l + 1
  /\ UNCHANGED << tid, closed >>

TResched ==
  /\ HasEv("resched")
  /\ Reschedule(Ev.times, Ev.start, Ev.nd)
  /\ l' = l + 1
  /\ UNCHANGED << tid, closed >>

TRewrite ==
  /\ HasEv("rewrite")
  /\ Rewrite(Ev.stored)
  /\ l' = l + 1
  /\ UNCHANGED << tid, closed >>

TRestart ==
  /\ HasEv("restart")
  /\ closed
  /\ Restart
  /\ closed' = FALSE /\ l' = l + 1
  /\ UNCHANGED tid

\* Diagnosis (second pass over rejected traces, DIAG set): print what the
\* specification expected where the trace stopped matching.  Never enabled.
Diag ==
  /\ "DIAG" \in DOMAIN IOEnv
  /\ l <= Len(Traces[tid].events)
  /\ \/ /\ Ev.e = "call" /\ ~ (IsReal /\ AtRealModel) /\ (RunModel \/ ModelRaise)
        /\ ~ CallMatches(calls'[Len(calls')])
        /\ PrintT(<<"EXPECTED", tid, l, ToJson(calls'[Len(calls')])>>)
     \/ /\ Ev.e = "call" /\ pc \in {"done", "failed", "rejected"}
        /\ PrintT(<<"EXPECTED", tid, l, ToJson([nocall |-> pc])>>)
        /\ UNCHANGED vars
     \/ /\ Ev.e # "call" /\ pc \in {"done", "failed", "rejected"} /\ ~ closed
        /\ PrintT(<<"EXPECTED", tid, l, ToJson([pc |-> pc, result |-> result, error |-> error, imgdt |-> cfg.imgdt])>>)
        /\ UNCHANGED vars
     \/ /\ Ev.e # "call" /\ pc = "run" /\ ~ (IsReal /\ AtRealModel) /\ (RunModel \/ ModelRaise)
        /\ PrintT(<<"EXPECTED", tid, l, ToJson(calls'[Len(calls')])>>)
  /\ FALSE
  /\ UNCHANGED << tid, l, closed >>

TNext == Silent \/ TCall \/ TDone \/ TFailed \/ TRejected \/ TToggle \/ TSetArgs \/ TResched \/ TRewrite \/ TRestart \/ Diag
TSpec == TInit /\ [][TNext]_tvars

Accepted == closed /\ l = Len(Traces[tid].events) + 1

ASSUME TLCSet(1, {}) /\ TLCSet(3, [t \in 1 .. Len(Traces) |-> 0])
Mark ==
  /\ (Accepted => TLCSet(1, TLCGet(1) \cup {tid}))
  /\ (l > TLCGet(3)[tid] => TLCSet(3, [TLCGet(3) EXCEPT ![tid] = l]))
Verdict ==
  /\ PrintT(<<"ACCEPTED", TLCGet(1)>>)
  /\ PrintT(<<"PROGRESS", TLCGet(3)>>)

\* every invariant of the specification is also evaluated on recorded traces
=============================================================================
