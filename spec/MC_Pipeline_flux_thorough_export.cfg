SPECIFICATION OneSpec
CONSTANTS
  FAMILY = "flux"
  MAXSTEPS = 0
  MAXTICK = 8
  MAXLEN = 8
  STRIDE = 8
CHECK_DEADLOCK FALSE
