SPECIFICATION MCSpec
CONSTANTS
  Threads = {"t1", "t2"}
  Seeds = {1, 2}
  Kinds = {"uniform"}
  MaxDepth = 2
  MaxDraws = 3
  MaxHist = 7
  LOCKED = FALSE
  STRIDE = 400
CONSTRAINT Both
POSTCONDITION Export
CHECK_DEADLOCK FALSE
