SPECIFICATION TSpec
INVARIANT C08_Frame
INVARIANT C08_Rejected
INVARIANT C12_AllInRange
INVARIANT C12_SamePolicy
CONSTRAINT Mark
POSTCONDITION Verdict
CHECK_DEADLOCK FALSE
