SPECIFICATION MCSpec
CONSTANTS
  STRIDE = 1
INVARIANT C18_RoundTrip
CHECK_DEADLOCK FALSE
