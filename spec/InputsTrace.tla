------------------------------ MODULE InputsTrace ------------------------------
(* Validation of placements, loads and format round trips against PyxelInputs. *)
(* Trace = [events]; events:                                                   *)
(*   place  h, w, H, W, oy, ox, align, out ("ok"/"rejected"), matrix           *)
(*   write  path            the file was rewritten (content = new version)     *)
(*   load   path, got       a model loaded the file and saw version `got`      *)
(*   format fmt, same       an array written in a supported format was read    *)
(*                          back with the same shape and values                *)
EXTENDS PyxelInputs, TLCExt, Json, IOUtils
Traces == JsonDeserialize(IOEnv.TRACE_FILE)
VARIABLES tid, l
tvars == << ivars, tid, l >>
Tr == Traces[tid]
Ev == Tr.events[l]
Is(e) == l <= Len(Tr.events) /\ Tr.events[l].e = e
TInit == tid \in 1 .. Len(Traces) /\ l = 1 /\ IInit({"a", "b"})
Step == l' = l + 1 /\ UNCHANGED tid

PlaceOK ==
  LET offs == IF Ev.align = "" THEN { << Ev.oy, Ev.ox >> } ELSE AlignOffsets(Ev.align, Ev.h, Ev.w, Ev.H, Ev.W) IN
    \E o \in offs :
      IF Overlaps(Ev.h, Ev.w, Ev.H, Ev.W, o[1], o[2])
        THEN Ev.out = "ok" /\ Ev.matrix = FitInto(Ev.h, Ev.w, Ev.H, Ev.W, o[1], o[2])
        ELSE Ev.out = "rejected"
\* A model that fits a map onto the detector (route "equiv:<model>") behaves exactly as if it had been given
\* the already fitted map - the one the load-image route placed, decided by PlaceOK - at offset (0, 0).
IsEquiv == "equiv" \in DOMAIN Ev
TPlace == Is("place") /\ (IF IsEquiv THEN Ev.equiv ELSE PlaceOK) /\ UNCHANGED ivars /\ Step
TWrite == Is("write") /\ WriteFile(Ev.path) /\ Step
TLoad  == Is("load") /\ Load(Ev.path) /\ loads'[Len(loads')].got = Ev.got /\ Step
TFormat == Is("format") /\ Ev.same /\ UNCHANGED ivars /\ Step

Diag ==
  /\ "DIAG" \in DOMAIN IOEnv /\ l <= Len(Tr.events)
  /\ ~ ENABLED (TPlace \/ TWrite \/ TLoad \/ TFormat)
  /\ PrintT(<<"EXPECTED", tid, l, ToJson([disk |-> disk,
        expected |-> IF Ev.e = "place" /\ Ev.align = "" THEN
                        (IF Overlaps(Ev.h, Ev.w, Ev.H, Ev.W, Ev.oy, Ev.ox) THEN FitInto(Ev.h, Ev.w, Ev.H, Ev.W, Ev.oy, Ev.ox) ELSE << >>)
                     ELSE << >>])>>)
  /\ FALSE /\ UNCHANGED tvars
TNext == TPlace \/ TWrite \/ TLoad \/ TFormat \/ Diag
TSpec == TInit /\ [][TNext]_tvars
Accepted == l = Len(Tr.events) + 1
ASSUME TLCSet(1, {}) /\ TLCSet(3, [t \in 1 .. Len(Traces) |-> 0])
Mark ==
  /\ (Accepted => TLCSet(1, TLCGet(1) \cup {tid}))
  /\ (l > TLCGet(3)[tid] => TLCSet(3, [TLCGet(3) EXCEPT ![tid] = l]))
Verdict ==
  /\ PrintT(<<"ACCEPTED", TLCGet(1)>>)
  /\ PrintT(<<"PROGRESS", TLCGet(3)>>)
=============================================================================
