SPECIFICATION MCSpec
CONSTANTS
  STRIDE = 17
INVARIANT C18_RoundTrip
CHECK_DEADLOCK FALSE
