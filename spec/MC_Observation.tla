--------------------------- MODULE MC_Observation ---------------------------
(* Model-checking instance of PyxelObservation: all small parameter spaces. *)
EXTENDS PyxelObservation, TLCExt, Json, IOUtils, SequencesExt

CONSTANTS MAXP, MAXFAULT, STRIDE, NLISTS

FaultsFor(ps) ==
  {<< >>} \cup { [j \in 1 .. Len(ps) |-> IF ps[j].enabled THEN t ELSE 0] : t \in 1 .. MAXFAULT }
          \cup { [j \in 1 .. Len(ps) |-> IF j = 1 /\ ps[j].enabled THEN t ELSE 0] : t \in 1 .. MAXFAULT }

AllLists == << <<2, 1>>, <<1, 2, 3>>, <<1>>, <<3, 1>>, <<2>>, <<1, 2>> >>
ValLists == { AllLists[k] : k \in 1 .. NLISTS }
ParamSet == [vals : ValLists, enabled : BOOLEAN, sink : {"photon", "signal"}]
ParamSeqs(_z) == UNION { [1 .. n -> ParamSet] : n \in 1 .. MAXP }

\* custom tables: rows of tokens, one per enabled parameter
Rows(ne) == [1 .. ne -> 1 .. 2]
Tables(ne) == UNION { [1 .. n -> Rows(ne)] : n \in 1 .. 2 }

NumEnabled(ps) == Cardinality({ j \in 1 .. Len(ps) : ps[j].enabled })

OCfgSet(_z) ==
  UNION { { [mode |-> md, params |-> ps, table |-> << >>, dask |-> dk, fault |-> f] :
              md \in {"product", "sequential"}, dk \in BOOLEAN, f \in FaultsFor(ps) } : ps \in ParamSeqs(0) }
  \cup
  UNION { { [mode |-> "custom", params |-> ps, table |-> tb, dask |-> dk, fault |-> f] :
              dk \in BOOLEAN, f \in FaultsFor(ps), tb \in UNION { Tables(ne) : ne \in 1 .. 2 } } :
          ps \in { q \in ParamSeqs(0) : NumEnabled(q) >= 1 /\ Len(q) <= 2 } }

GoodCfg(c) == c.mode # "custom" \/ \A r \in 1 .. Len(c.table) : Len(c.table[r]) = NumEnabled(c.params)

MCInit == \E c \in OCfgSet(0) : GoodCfg(c) /\ NumEnabled(c.params) >= 1 /\ OInitWith(c)
MCReconf == \E j \in 1 .. NP, tok \in {1, 2} : (~ ("defaults" \in DOMAIN ocfg)) /\ Reconfigure(j, tok)
MCSpec == MCInit /\ [][ONext \/ Rerun \/ MCReconf]_ovars

ExportSample(_z) ==
  LET s == SetToSeq({ c \in OCfgSet(0) : GoodCfg(c) /\ NumEnabled(c.params) >= 1 })
      n == Len(s) \div STRIDE
  IN  /\ PrintT(<<"CFGSET", Len(s), "EXPORTED", n>>)
      /\ JsonSerialize(IOEnv.OUT_FILE, [k \in 1 .. n |-> s[k * STRIDE]])
OneInit == OInitWith(CHOOSE c \in OCfgSet(0) : GoodCfg(c) /\ NumEnabled(c.params) >= 1)
OneSpec == OneInit /\ [][FALSE]_ovars
=============================================================================
