------------------------------ MODULE MC_Storage ------------------------------
EXTENDS PyxelStorage, TLCExt, Json, IOUtils, SequencesExt
CONSTANTS STRIDE
Types == {"CCD", "CMOS", "MKID", "APD"}
Dets(_z) ==
  { d \in [type : Types, props : {"minimal", "full"}, data : [Containers -> {EMPTY, 3}]] : WellFormed(d) }
MCInit == \E d \in Dets(0) : GInitWith(d)
MCNext == \/ (files = << >> /\ Save("f"))
          \/ (files # << >> /\ Len(loaded) = 0 /\ \E c \in {"pixel", "signal"} : Modify(c, 9))
          \/ (Len(loaded) = 0 /\ Load("f"))
MCSpec == MCInit /\ [][MCNext]_gvars
ExportSample(_z) ==
  LET s == SetToSeq(Dets(0))
      n == Len(s) \div STRIDE
  IN  /\ PrintT(<<"CFGSET", Len(s), "EXPORTED", n>>)
      /\ JsonSerialize(IOEnv.OUT_FILE, [k \in 1 .. n |-> s[k * STRIDE]])
=============================================================================
