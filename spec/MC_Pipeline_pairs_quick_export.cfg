SPECIFICATION OneSpec
CONSTANTS
  FAMILY = "pairs"
  MAXSTEPS = 2
  MAXTICK = 0
  MAXLEN = 0
  STRIDE = 32
CHECK_DEADLOCK FALSE
