SPECIFICATION MCSpec
CONSTANTS
  R = 2
  C = 3
  SV = 4
  SH = 6
  MAXLEN = 4
  STRIDE = 80
INVARIANT C14_Reported
INVARIANT C14_NonNegative
INVARIANT C14_FrameAgrees
CONSTRAINT Emit
POSTCONDITION Export
CHECK_DEADLOCK FALSE
