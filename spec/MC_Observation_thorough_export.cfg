SPECIFICATION OneSpec
CONSTANTS
  MAXP = 2
  MAXFAULT = 2
  NLISTS = 5
  STRIDE = 30
CHECK_DEADLOCK FALSE
