SPECIFICATION OneSpec
CONSTANTS
  MAXP = 3
  MAXFAULT = 2
  NLISTS = 6
  STRIDE = 400
CHECK_DEADLOCK FALSE
