--------------------------- MODULE MC_Containers ---------------------------
(* All operation histories of bounded length over a representative argument *)
(* alphabet, for every container kind.                                      *)
EXTENDS PyxelContainers, TLCExt, Json, IOUtils, SequencesExt

CONSTANTS MAXLEN, STRIDE

A(c, s, d, n, i) == [carrier |-> c, shape |-> s, dtype |-> d, neg |-> n, nan |-> (i = 2), id |-> i]

Args(_z) ==
  { A("ndarray", "ok", "float64", FALSE, 1), A("ndarray", "ok", "float32", FALSE, 2),
    A("ndarray", "ok", "float64", TRUE, 3),  A("ndarray", "rows", "float64", FALSE, 4),
    A("ndarray", "ok", "int64", FALSE, 5),   A("ndarray", "ok", "uint16", FALSE, 6),
    A("ndarray", "transposed", "float64", FALSE, 7), A("ndarray", "oned", "float64", FALSE, 8),
    A("list", "ok", "float64", FALSE, 9),    A("cube", "ok", "float64", FALSE, 10),
    A("ndarray", "ok", "uint64", FALSE, 11), A("scalar", "scalar", "float64", FALSE, 12) }

Others == {"copy", "empty", "diff", "otherkind", "othershape"}

MCNext ==
  /\ Len(hist) < MAXLEN
  /\ \/ \E a \in Args(0) : Set(a) \/ Update(a) \/ IAddEmpty(a) \/ (\E ok \in BOOLEAN : IAddHolding(a, ok, cont.val + a.id, cont.neg \/ a.neg, cont.nan \/ a.nan))
     \/ Update(NoArg)
     \/ Reset \/ Read
     \/ \E o \in Others, r \in {0, 1} : Eq(o, r)

MCInit == \E k \in Kinds : CInitWith(k, EmptyC)
MCSpec == MCInit /\ [][MCNext]_cvars

\* export: every STRIDE-th complete history (operation sequence only; the
\* implementation decides the outcomes, the trace specification judges them)
ASSUME TLCSet(2, << >>) /\ TLCSet(4, 0)
Emit ==
  (Len(hist) = MAXLEN) =>
    /\ TLCSet(4, TLCGet(4) + 1)
    /\ (TLCGet(4) % STRIDE = 0 =>
          TLCSet(2, Append(TLCGet(2), [kind |-> kind, ops |-> [k \in 1 .. Len(hist) |-> [op |-> hist[k].op, arg |-> hist[k].arg]]])))
Export ==
  /\ PrintT(<<"HISTORIES", TLCGet(4)>>)
  /\ IF "OUT_FILE" \in DOMAIN IOEnv THEN JsonSerialize(IOEnv.OUT_FILE, TLCGet(2)) ELSE TRUE
=============================================================================
