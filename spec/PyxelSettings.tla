--------------------------- MODULE PyxelSettings ---------------------------
(***************************************************************************)
(* The settings tree of one processor (detector geometry / environment /   *)
(* characteristics fields, model arguments and enabled flags) addressed by *)
(* dotted keys, and the documented ranges of physical quantities.          *)
(* Properties C08 (keys) and C12 (limits on every path).                   *)
(*                                                                         *)
(* A key is the sequence of its dot-separated components.  A leaf is a key *)
(* that names an existing setting.  Values are records:                    *)
(*    [k |-> "num", n |-> numerator, d |-> denominator]   a number n/d     *)
(*    [k |-> "txt", c |-> canonical text]                  anything else   *)
(***************************************************************************)
EXTENDS Integers, Sequences, FiniteSets, TLC

VARIABLES
  scfg,    \* [leaves: set of keys, disabled: set of model prefixes (<<"pipeline",g,m>>), tree0: the original settings]
  tree,    \* [leaf -> value]
  ran,     \* has any pipeline been executed
  hist     \* Seq([op, path, key, val, out, changed])

svars == << scfg, tree, ran, hist >>

Num(n, d) == [k |-> "num", n |-> n, d |-> d]
Txt(c) == [k |-> "txt", c |-> c]

---------------------------------------------------------------------------
\* Documented ranges (statement of C12: quantum efficiency 0..1, temperature
\* > 0, array size >= 1, ADC resolution 4..64 "and so on" = the ranges the
\* constructors announce).  [lo, hi] as rationals; lo_open: the bound is excluded.
\* hi = -1: no upper bound.
Limits ==
  [ quantum_efficiency        |-> [lo |-> 0, lo_open |-> FALSE, hi |-> 1, int |-> FALSE],
    charge_to_volt_conversion |-> [lo |-> 0, lo_open |-> FALSE, hi |-> 100, int |-> FALSE],
    pre_amplification         |-> [lo |-> 0, lo_open |-> FALSE, hi |-> 10000, int |-> FALSE],
    full_well_capacity        |-> [lo |-> 0, lo_open |-> FALSE, hi |-> 10000000, int |-> FALSE],
    adc_bit_resolution        |-> [lo |-> 4, lo_open |-> FALSE, hi |-> 64, int |-> TRUE],
    temperature               |-> [lo |-> 0, lo_open |-> TRUE,  hi |-> 1000, int |-> FALSE],
    row                       |-> [lo |-> 1, lo_open |-> FALSE, hi |-> -1, int |-> TRUE],
    col                       |-> [lo |-> 1, lo_open |-> FALSE, hi |-> -1, int |-> TRUE],
    total_thickness           |-> [lo |-> 0, lo_open |-> FALSE, hi |-> 10000, int |-> FALSE],
    pixel_vert_size           |-> [lo |-> 0, lo_open |-> FALSE, hi |-> 1000, int |-> FALSE],
    pixel_horz_size           |-> [lo |-> 0, lo_open |-> FALSE, hi |-> 1000, int |-> FALSE],
    wavelength                |-> [lo |-> 0, lo_open |-> TRUE,  hi |-> -1, int |-> FALSE],
    avalanche_gain            |-> [lo |-> 1, lo_open |-> FALSE, hi |-> 1000, int |-> FALSE] ]

Limited == DOMAIN Limits
FieldOf(leaf) == leaf[Len(leaf)]
IsDetectorLeaf(leaf) == Len(leaf) = 3 /\ leaf[1] = "detector"

\* v.n / v.d within the limits of field f  (d > 0)
InRangeNum(f, v) ==
  LET L == Limits[f] IN
    /\ IF L.lo_open THEN v.n > L.lo * v.d ELSE v.n >= L.lo * v.d
    /\ (L.hi = -1 \/ v.n <= L.hi * v.d)

InRange(leaf, v) ==
  IF IsDetectorLeaf(leaf) /\ FieldOf(leaf) \in Limited
    THEN v.k = "num" /\ InRangeNum(FieldOf(leaf), v)
    ELSE TRUE
Unset == Txt("None")                      \* an optional quantity that was never given
InRangeStored(leaf, v) == v = Unset \/ InRange(leaf, v)

\* Textual values are converted to the number, list or string they literally denote
\* (statement of C08).  Canonical text of non-numbers: "<type>:<repr>".
Denote ==
  [ t \in { "12", "-3", "1.5", "1e3", "0.25", "True", "[1, 2]", "[[1, 2], [3]]", "(1, 2)", "abc", "'abc'",
            "a b", "1,2", "x_1", "3.0e-1x", "numpy.arange(1, 4)", "numpy.linspace(1, 2, 3)", "range(1, 4)",
            "numpy.array([0.5, 2.0])", "[1, 2, 4]", "0", "[0, 5]", "[0.0, 20.0, 0]", "False" } |->
      CASE t = "12"   -> Num(12, 1)
        [] t = "-3"   -> Num(-3, 1)
        [] t = "1.5"  -> Num(3, 2)
        [] t = "1e3"  -> Num(1000, 1)
        [] t = "0.25" -> Num(1, 4)
        [] t = "True" -> Txt("bool:True")
        [] t = "False" -> Txt("bool:False")
        [] t = "0"    -> Num(0, 1)
        [] t = "[0, 5]" -> Txt("list:[0, 5]")
        [] t = "[0.0, 20.0, 0]" -> Txt("list:[0, 20, 0]")
        [] t = "[1, 2]" -> Txt("list:[1, 2]")
        [] t = "[[1, 2], [3]]" -> Txt("list:[[1, 2], [3]]")
        [] t = "(1, 2)" -> Txt("list:[1, 2]")
        [] t = "1,2"  -> Txt("list:[1, 2]")
        [] t = "abc"  -> Txt("str:abc")
        [] t = "'abc'" -> Txt("str:abc")
        [] t = "a b"  -> Txt("str:a b")
        [] t = "x_1"  -> Txt("str:x_1")
        [] t = "3.0e-1x" -> Txt("str:3.0e-1x")
        \* value ranges and readout times may be written as expressions (statement of C12)
        [] t = "numpy.arange(1, 4)" -> Txt("list:[1, 2, 3]")
        [] t = "range(1, 4)" -> Txt("list:[1, 2, 3]")
        [] t = "[1, 2, 4]" -> Txt("list:[1, 2, 4]")
        [] t = "numpy.linspace(1, 2, 3)" -> Txt("list:[1, 1.5, 2]")
        [] t = "numpy.array([0.5, 2.0])" -> Txt("list:[0.5, 2]") ]

---------------------------------------------------------------------------
\* C08: a key resolves to exactly one existing setting, or to nothing.
NONE == << "NONE" >>
Resolve(key) == IF key \in scfg.leaves THEN key ELSE NONE

\* (an entry of a dictionary-valued argument is addressed with one more component)
IsModelArg(key) == Len(key) >= 5 /\ key[1] = "pipeline" /\ key[4] = "arguments"
ModelOf(key) == << key[1], key[2], key[3] >>

\* Outcome required of assigning through `key` from entry point `path`:
\*   "sweep"       parameter of an observation (validate_steps + Processor.set)
\*   "override"    command-line override / run_mode(override_dct=...)
\*   "calibration" calibrated parameter
\*   "setattr"     the attribute itself (C12)
\*   "construct", "yaml"   a new object from the constructor / a YAML document (C12)
\* whether a model is enabled NOW: its flag is a setting like any other (an override may have changed it)
Truthy(v) == v \notin { Num(0, 1), Txt("bool:False"), Txt("None"), Txt("str:"), Txt("list:[]") }
EnabledNow(model) ==
  LET k == model \o << "enabled" >> IN IF k \in DOMAIN tree THEN Truthy(tree[k]) ELSE model \notin scfg.disabled

Refused(path, key, v) ==
  \/ Resolve(key) = NONE
  \/ ~ InRange(key, v)
  \/ (path = "sweep" /\ IsModelArg(key) /\ ~ EnabledNow(ModelOf(key)))

\* What an accepted assignment produces, by entry point:
\*   override, setattr   change the caller's settings and stay
\*   sweep               applies to the private copy of one run: the caller's settings stay (C06)
\*   construct           a new settings object built with this one value, compared with the same
\*                       construction without it; the caller's settings stay
\*   yaml                a NEW detector loaded from the original document with this one value
\*                       (its detector settings are the document's); the caller's settings stay
\* `changed` = the settings in which the produced object differs from the caller's current ones.
Persists(path) == path \in {"override", "setattr"}
NewObject(path) == path = "yaml"
Produced(path, key, v) ==
  IF NewObject(path)
    THEN [k \in DOMAIN tree |-> IF k = key THEN v ELSE IF k[1] = "detector" THEN scfg.tree0[k] ELSE tree[k]]
    ELSE [tree EXCEPT ![key] = v]

Assign(path, key, v) ==
  /\ IF Refused(path, key, v)
       THEN /\ UNCHANGED << tree, ran >>
            /\ hist' = Append(hist, [op |-> "set", path |-> path, key |-> key, val |-> v,
                                     out |-> "rejected", changed |-> {}])
       ELSE /\ tree' = IF Persists(path) THEN Produced(path, key, v) ELSE tree
            /\ UNCHANGED ran
            /\ hist' = Append(hist, [op |-> "set", path |-> path, key |-> key, val |-> v, out |-> "ok",
                                     changed |-> { k \in DOMAIN tree : Produced(path, key, v)[k] # tree[k] }])
  /\ UNCHANGED scfg

\* A constructor call / document that gives a SECOND setting together with the one under test: the limits
\* of a quantity do not depend on what its neighbours are (absent = Unset, or any admissible value).
Assign2(path, key, v, key2, v2) ==
  /\ NewObject(path) \/ path = "construct"
  /\ LET refused == Refused(path, key, v) \/ (v2 # Unset /\ Refused(path, key2, v2))
         prod == [Produced(path, key, v) EXCEPT ![key2] = v2]
     IN hist' = Append(hist, [op |-> "set2", path |-> path, key |-> key, val |-> v, key2 |-> key2,
                              out |-> IF refused THEN "rejected" ELSE "ok",
                              changed |-> IF refused THEN {} ELSE { k \in DOMAIN tree : prod[k] # tree[k] }])
  /\ UNCHANGED << scfg, tree, ran >>

\* C12: a document with no or several running modes, or no or several detectors, is refused
LoadDocument(nmodes, ndets) ==
  /\ hist' = Append(hist, [op |-> "load", path |-> "yaml", key |-> << >>, val |-> Num(nmodes * 10 + ndets, 1),
                           out |-> IF nmodes = 1 /\ ndets = 1 THEN "ok" ELSE "rejected", changed |-> {}])
  /\ UNCHANGED << scfg, tree, ran >>

RunPipeline == ran' = TRUE /\ UNCHANGED << scfg, tree, hist >>

SInitWith(c, t) == scfg = [leaves |-> c.leaves, disabled |-> c.disabled, tree0 |-> t] /\ tree = t /\ ran = FALSE /\ hist = << >>

\* C08: assigning through a key changes that setting and nothing else
C08_Frame ==
  \A k \in 1 .. Len(hist) :
    ~ NewObject(hist[k].path) =>
       hist[k].changed \subseteq (IF hist[k].op = "set2" THEN {hist[k].key, hist[k].key2} ELSE {hist[k].key})
\* C08: a key that does not resolve is rejected (no silent no-op, nothing created)
C08_Rejected ==
  \A k \in 1 .. Len(hist) : (hist[k].op \in {"set", "set2"} /\ hist[k].key \notin scfg.leaves) => hist[k].out = "rejected"
\* C12: no path ever leaves a physical quantity outside its documented range
C12_AllInRange == \A leaf \in DOMAIN tree : InRangeStored(leaf, tree[leaf])
\* C12: every path applies the same policy
C12_SamePolicy ==
  \A k \in 1 .. Len(hist) :
    (hist[k].op \in {"set", "set2"} /\ hist[k].key \in scfg.leaves /\ ~ InRange(hist[k].key, hist[k].val)) => hist[k].out = "rejected"
=============================================================================
