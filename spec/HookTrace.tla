----------------------------- MODULE HookTrace -----------------------------
(* Trace validation of executions of the REAL model library recorded through *)
(* the hooks in the repository (PYXEL_VERIF_TRACE): the repository's own     *)
(* tests and example configurations.  The models are "opaque": whatever they *)
(* leave in the buckets is bound from the trace; the specification decides   *)
(* everything around them - dispatch order and enabled flags (C01), clock    *)
(* and per-step bucket life-cycle (C02), the returned record (C03).          *)
(*                                                                           *)
(* Bucket contents are tokens: EMPTY (no array), 0 (all zeros) or the number *)
(* of the distinct content digest within the trace.                          *)
(* Events: step_begin {clock, buckets}   after the per-step reset            *)
(*         model_begin {g, name}          a model is about to run            *)
(*         model_end {g, name, buckets}   it returned                        *)
(*         model_error {g, name}          it raised                          *)
(*         step_end {buckets}             the pipeline of the step finished  *)
(*         run_end {result}               the result tree was assembled      *)
(* A recording may stop anywhere (an exception outside a model is not logged)*)
(* - every event that was recorded must be explained.                        *)
EXTENDS PyxelPipeline, TLCExt, Json, IOUtils

Traces == JsonDeserialize(IOEnv.TRACE_FILE)

VARIABLES tid, l
hvars == << vars, tid, l >>

Ev == Traces[tid].events[l]
HasEv(e) == l <= Len(Traces[tid].events) /\ Traces[tid].events[l].e = e

HInit ==
  /\ tid \in 1 .. Len(Traces)
  /\ l = 1
  /\ InitWith(Traces[tid].cfg)

\* Which clauses this validation pass decides (one pass per property):
\*   dispatch  the models run in the specification's order (C01)
\*   clock     the clock shown during the step (C02)
\*   reset     the buckets after the per-step reset (C02)
\*   stepend   nothing touches the buckets between the last model and the extraction (C03)
\*   result    the returned record (C03)
\* A clause that is not decided is taken from the recording, so that the pass stays in
\* step with the execution without judging it.
Chk(f) == Traces[tid].check[f]

Silent ==
  /\ \/ Validate \/ InitialEmpty
     \/ (Chk("dispatch") /\ (NextGroup \/ SkipDisabled))
  /\ UNCHANGED << tid, l >>

\* only the fields that could be projected exactly are present in the event
ClockMatches(c, e) == \A f \in DOMAIN e : c[f] = e[f]
BucketsMatch(b, e) == \A x \in ArrayBuckets : b[x] = e[x]
After(e) == [x \in Buckets |-> IF x \in ArrayBuckets THEN e[x] ELSE bucket[x]]

\* BeginStep with the buckets bound from the recording
HStepBegin ==
  /\ HasEv("step_begin")
  /\ pc = "begin"
  /\ clock' = ClockAt(i)
  /\ (Chk("clock") => ClockMatches(ClockAt(i), Ev.clock))
  /\ bucket' = After(Ev.buckets)
  /\ (Chk("reset") => After(Ev.buckets) = ResetStep(bucket, cfg.nd))     \* C02: the per-step reset
  /\ g' = 1 /\ m' = 1 /\ pc' = "run"
  /\ l' = l + 1
  /\ UNCHANGED << cfg, i, calls, eos, result, error, tid >>

AtModel(gname, name) ==
  /\ pc = "run" /\ g <= NG
  /\ IF m <= Len(cfg.pipe[g])
       THEN cfg.pipe[g][m].enabled /\ GROUPS[g] = gname /\ cfg.pipe[g][m].name = name
       ELSE FALSE

Positions == UNION { { << gg, mm >> : mm \in 1 .. Len(cfg.pipe[gg]) } : gg \in 1 .. NG }
PosOf(gname, name) == { p \in Positions : GROUPS[p[1]] = gname /\ cfg.pipe[p[1]][p[2]].name = name }

HModelBegin ==
  /\ HasEv("model_begin")
  /\ pc = "run"
  /\ (Chk("dispatch") => AtModel(Ev.g, Ev.name))             \* C01: this is the next enabled model
  /\ l' = l + 1 /\ UNCHANGED << vars, tid >>

HModelEnd ==
  /\ HasEv("model_end")
  /\ IF Chk("dispatch")
       THEN AtModel(Ev.g, Ev.name) /\ RunOpaque(After(Ev.buckets))
       ELSE /\ pc = "run"
            /\ bucket' = After(Ev.buckets)
            /\ IF PosOf(Ev.g, Ev.name) # {}
                 THEN LET p == CHOOSE q \in PosOf(Ev.g, Ev.name) : TRUE IN
                        /\ g' = p[1] /\ m' = p[2] + 1
                        /\ calls' = Append(calls, [step |-> i, g |-> p[1], name |-> Ev.name, args |-> "",
                                                   clock |-> clock, seen |-> bucket])
                 ELSE UNCHANGED << g, m, calls >>
            /\ UNCHANGED << cfg, pc, i, clock, eos, result, error >>
  /\ l' = l + 1 /\ UNCHANGED tid

HModelError ==
  /\ HasEv("model_error")
  /\ IF Chk("dispatch")
       THEN AtModel(Ev.g, Ev.name) /\ OpaqueRaise
       ELSE /\ pc = "run" /\ pc' = "failed" /\ result' = EmptyResult
            /\ error' = [g |-> 0, name |-> Ev.name, exc |-> "opaque", msg |-> ""]
            /\ UNCHANGED << cfg, i, g, m, clock, bucket, calls, eos >>
  /\ l' = l + 1 /\ UNCHANGED tid

HStepEnd ==
  /\ HasEv("step_end")
  /\ (Chk("stepend") => BucketsMatch(bucket, Ev.buckets))    \* nothing touched the buckets after the last model
  /\ IF Chk("dispatch") THEN EndStep ELSE (pc = "run" /\ EndStepBody)
  /\ l' = l + 1 /\ UNCHANGED tid

\* C03: one slice per readout; where the bucket held data at the end of the step the
\* slice has that content and carries the step's absolute time
ResultMatches(r) ==
  \A x \in DOMAIN r :
    /\ Len(r[x]) = N
    /\ \A k \in 1 .. N :
         eos[k][x] # EMPTY =>
           /\ r[x][k].level = eos[k][x]
           /\ ("label" \in DOMAIN r[x][k] => r[x][k].label = cfg.start + cfg.times[k])

HRunEnd ==
  /\ HasEv("run_end")
  /\ Finish
  /\ (Chk("result") => ResultMatches(Ev.result))
  /\ l' = l + 1 /\ UNCHANGED tid

Diag ==
  /\ "DIAG" \in DOMAIN IOEnv
  /\ l <= Len(Traces[tid].events)
  /\ PrintT(<<"EXPECTED", tid, l, ToJson([pc |-> pc, i |-> i, g |-> g, m |-> m, clock |-> clock, bucket |-> bucket,
                                          next |-> IF g <= NG THEN cfg.pipe[g] ELSE << >>,
                                          eos |-> eos])>>)
  /\ FALSE
  /\ UNCHANGED hvars

HNext == Silent \/ HStepBegin \/ HModelBegin \/ HModelEnd \/ HModelError \/ HStepEnd \/ HRunEnd \/ Diag
HSpec == HInit /\ [][HNext]_hvars

Accepted == l = Len(Traces[tid].events) + 1

ASSUME TLCSet(1, {}) /\ TLCSet(3, [t \in 1 .. Len(Traces) |-> 0])
Mark ==
  /\ (Accepted => TLCSet(1, TLCGet(1) \cup {tid}))
  /\ (l > TLCGet(3)[tid] => TLCSet(3, [TLCGet(3) EXCEPT ![tid] = l]))
Verdict ==
  /\ PrintT(<<"ACCEPTED", TLCGet(1)>>)
  /\ PrintT(<<"PROGRESS", TLCGet(3)>>)
=============================================================================
