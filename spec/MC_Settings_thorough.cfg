SPECIFICATION MCSpec
CONSTANTS
  MAXLEN = 2
  STRIDE = 37
INVARIANT C08_Frame
INVARIANT C08_Rejected
INVARIANT C12_AllInRange
INVARIANT C12_SamePolicy
CONSTRAINT Emit
POSTCONDITION Export
CHECK_DEADLOCK FALSE
