SPECIFICATION OneSpec
CONSTANTS
  FAMILY = "layouts"
  MAXV = 3
  STRIDE = 200
CHECK_DEADLOCK FALSE
