----------------------------- MODULE PyxelStorage -----------------------------
(***************************************************************************)
(* A detector written to a file and read back.  Property C18 (round trip). *)
(* det = [type, props, data] with data: container -> EMPTY | token.        *)
(* (The load-detector model inside a pipeline is the "loaddet" effect of   *)
(* PyxelPipeline.)                                                         *)
(***************************************************************************)
EXTENDS Integers, Sequences, FiniteSets, TLC

Containers == {"photon2d", "photon3d", "charge_array", "charge_frame", "pixel", "signal", "image",
               "phase", "scene", "data"}
EMPTY == -1

VARIABLES det,     \* the detector in memory
          files,   \* [name -> det]
          loaded   \* history: Seq([name, det])

gvars == << det, files, loaded >>

Save(n) == files' = (n :> det) @@ files /\ UNCHANGED << det, loaded >>
Load(n) == n \in DOMAIN files /\ loaded' = Append(loaded, [name |-> n, det |-> files[n]]) /\ UNCHANGED << det, files >>
Modify(c, v) == det' = [det EXCEPT !.data[c] = v] /\ UNCHANGED << files, loaded >>

WellFormed(d) ==
  /\ ~ (d.data["photon2d"] # EMPTY /\ d.data["photon3d"] # EMPTY)     \* mono- or multi-wavelength, not both
  /\ (d.type # "MKID" => d.data["phase"] = EMPTY)

GInitWith(d) == det = d /\ files = << >> /\ loaded = << >>

\* C18: what is read back is what was written (whatever was changed in memory afterwards)
C18_RoundTrip == \A k \in 1 .. Len(loaded) : loaded[k].det = files[loaded[k].name]
=============================================================================
