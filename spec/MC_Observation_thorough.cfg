SPECIFICATION MCSpec
CONSTANTS
  MAXP = 2
  MAXFAULT = 2
  NLISTS = 5
  STRIDE = 30
INVARIANT C05_ProductIsTheCartesianProduct
INVARIANT C05_SequentialOneAtATime
INVARIANT C05_SequentialCount
INVARIANT C05_DisabledIgnored
INVARIANT C05_ExactlySpace
INVARIANT C05_Labelled
INVARIANT C06_Isolated
INVARIANT C06_Frame
INVARIANT C07_ScheduleIndependent
INVARIANT C09_FailStopsSequential
INVARIANT C09_NoMergeAfterFailure
INVARIANT C09_FaultAlwaysSurfaces
CHECK_DEADLOCK FALSE
