SPECIFICATION OneSpec
CONSTANTS
  MAXP = 2
  MAXFAULT = 1
  NLISTS = 3
  STRIDE = 20
CHECK_DEADLOCK FALSE
