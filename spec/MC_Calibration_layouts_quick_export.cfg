SPECIFICATION OneSpec
CONSTANTS
  FAMILY = "layouts"
  MAXV = 3
  STRIDE = 12
CHECK_DEADLOCK FALSE
