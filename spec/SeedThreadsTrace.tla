-------------------------- MODULE SeedThreadsTrace --------------------------
(* Batch trace validation for PyxelSeedThreads: executions of the real       *)
(* set_random_seed driven through forced thread schedules.  Each event       *)
(* carries the thread, the operation and the generator state observed after  *)
(* it (projected to [stream, seq] by looking its digest up in a table of      *)
(* reference generators).  `blocked`: the thread tried to enter a seeded      *)
(* block and did not get in within the timeout.                              *)
EXTENDS PyxelSeedThreads, TLCExt, Json, IOUtils

Traces == JsonDeserialize(IOEnv.TRACE_FILE)
VARIABLES tid, l
ttvars == << tvars, tid, l >>
Ev == Traces[tid].events[l]
HasEv(e) == l <= Len(Traces[tid].events) /\ Traces[tid].events[l].op = e

TTInit == /\ tid \in 1 .. Len(Traces) /\ l = 1
          /\ TInitT(Traces[tid].g0)

TEnter   == HasEv("enter") /\ Enter(Ev.t, Ev.arg) /\ gen' = Ev.gen /\ l' = l + 1 /\ UNCHANGED tid
TDraw    == HasEv("draw")  /\ Draw(Ev.t, Ev.arg)  /\ gen' = Ev.gen /\ l' = l + 1 /\ UNCHANGED tid
TLeave   == HasEv("leave") /\ Leave(Ev.t)         /\ gen' = Ev.gen /\ l' = l + 1 /\ UNCHANGED tid
\* the implementation refused entry: allowed exactly when the specification does not let the thread in
TBlocked == HasEv("blocked") /\ ~ CanEnter(Ev.t) /\ l' = l + 1 /\ UNCHANGED << tvars, tid >>

Diag ==
  /\ "DIAG" \in DOMAIN IOEnv
  /\ l <= Len(Traces[tid].events)
  /\ PrintT(<<"EXPECTED", tid, l, ToJson([owner |-> owner, gen |-> gen, ugen |-> ugen, saved |-> saved,
                                          canenter |-> [t \in Threads |-> CanEnter(t)]])>>)
  /\ FALSE
  /\ UNCHANGED ttvars

TTNext == TEnter \/ TDraw \/ TLeave \/ TBlocked \/ Diag
TTSpec == TTInit /\ [][TTNext]_ttvars

Accepted == l = Len(Traces[tid].events) + 1
ASSUME TLCSet(1, {}) /\ TLCSet(3, [t \in 1 .. Len(Traces) |-> 0])
Mark ==
  /\ (Accepted => TLCSet(1, TLCGet(1) \cup {tid}))
  /\ (l > TLCGet(3)[tid] => TLCSet(3, [TLCGet(3) EXCEPT ![tid] = l]))
Verdict ==
  /\ PrintT(<<"ACCEPTED", TLCGet(1)>>)
  /\ PrintT(<<"PROGRESS", TLCGet(3)>>)
=============================================================================
