SPECIFICATION OneSpec
CONSTANTS
  FAMILY = "pairs"
  MAXSTEPS = 3
  MAXTICK = 0
  MAXLEN = 0
  STRIDE = 16
CHECK_DEADLOCK FALSE
