------------------------------ MODULE SeedTrace ------------------------------
(* Batch validation of recorded generator histories.  The harness wraps       *)
(* numpy.random.get_state / seed / set_state and takes a digest of the full   *)
(* generator state (key, position, pending Gaussian) at every observation.    *)
(* Trace = [events]; events:                                                  *)
(*   begin  key, tok       an observed call starts (a seeded model call or a  *)
(*                         seeded run); tok = state digest                    *)
(*   get    tok            numpy.random.get_state() was called                *)
(*   seed   seed, tok      numpy.random.seed(seed); tok = state afterwards    *)
(*   set    tok            numpy.random.set_state(state with digest tok)      *)
(*   end    key, tok, out, raised   the call finished; out = digest of result *)
(*   outside tok           unrelated code drew from the process stream        *)
(* States are opaque tokens: the specification checks the protocol (every     *)
(* seed is preceded by a save, every restore restores the matching save,      *)
(* LIFO), Restored (state at end = state at begin) and Reproducible (equal    *)
(* keys give equal results whatever happened in between).                     *)
EXTENDS Integers, Sequences, FiniteSets, TLC, TLCExt, Json, IOUtils

Traces == JsonDeserialize(IOEnv.TRACE_FILE)
VARIABLES tid, l, saved, stack, open, outs
tvars == << tid, l, saved, stack, open, outs >>
Tr == Traces[tid]
Ev == Tr.events[l]
Is(e) == l <= Len(Tr.events) /\ Tr.events[l].e = e

TInit == tid \in 1 .. Len(Traces) /\ l = 1 /\ saved = "" /\ stack = << >> /\ open = << >> /\ outs = << >>

Step == l' = l + 1 /\ UNCHANGED tid

TBegin == Is("begin") /\ open' = << [key |-> Ev.key, tok |-> Ev.tok, depth |-> Len(stack)] >> \o open
          /\ UNCHANGED << saved, stack, outs >> /\ Step
TGet   == Is("get") /\ saved' = Ev.tok /\ UNCHANGED << stack, open, outs >> /\ Step
\* a seed opens a block; if the state was saved through get_state() just before, the
\* matching restore must restore exactly that state ("?" = saved by other means, which
\* only Restored at the end of the call can judge)
TSeed  == Is("seed") /\ stack' = << (IF saved # "" THEN saved ELSE "?") >> \o stack /\ saved' = ""
          /\ UNCHANGED << open, outs >> /\ Step
\* a restore restores the most recent save (LIFO)
TSet   == Is("set") /\ stack # << >> /\ (Head(stack) = "?" \/ Ev.tok = Head(stack)) /\ stack' = Tail(stack)
          /\ UNCHANGED << saved, open, outs >> /\ Step
TOutside == Is("outside") /\ stack = << >> /\ open = << >> /\ UNCHANGED << saved, stack, open, outs >> /\ Step

KnownOut(k) == \E j \in 1 .. Len(outs) : outs[j].key = k
OutOf(k) == (CHOOSE j \in 1 .. Len(outs) : outs[j].key = k)

TEnd ==
  /\ Is("end")
  /\ open # << >>
  /\ Head(open).key = Ev.key
  /\ \/ Len(stack) = Head(open).depth                 \* every block opened inside was closed
     \/ \A j \in 1 .. (Len(stack) - Head(open).depth) : stack[j] = "?"
  /\ Ev.tok = Head(open).tok                          \* Restored: exactly the state it had before
  /\ IF Ev.raised THEN UNCHANGED outs
     ELSE IF KnownOut(Ev.key) THEN outs[OutOf(Ev.key)].out = Ev.out /\ UNCHANGED outs     \* Reproducible
     ELSE outs' = Append(outs, [key |-> Ev.key, out |-> Ev.out])
  /\ open' = Tail(open)
  /\ stack' = SubSeq(stack, Len(stack) - Head(open).depth + 1, Len(stack))
  /\ UNCHANGED saved /\ Step

Diag ==
  /\ "DIAG" \in DOMAIN IOEnv
  /\ l <= Len(Tr.events)
  /\ ~ ENABLED (TBegin \/ TGet \/ TSeed \/ TSet \/ TOutside \/ TEnd)
  /\ PrintT(<<"EXPECTED", tid, l, ToJson([open |-> open, stackdepth |-> Len(stack),
                                             known |-> IF Ev.e = "end" /\ KnownOut(Ev.key) THEN outs[OutOf(Ev.key)].out ELSE ""])>>)
  /\ FALSE /\ UNCHANGED tvars

TNext == TBegin \/ TGet \/ TSeed \/ TSet \/ TOutside \/ TEnd \/ Diag
TSpec == TInit /\ [][TNext]_tvars
Accepted == l = Len(Tr.events) + 1 /\ open = << >> /\ stack = << >>

ASSUME TLCSet(1, {}) /\ TLCSet(3, [t \in 1 .. Len(Traces) |-> 0])
Mark ==
  /\ (Accepted => TLCSet(1, TLCGet(1) \cup {tid}))
  /\ (l > TLCGet(3)[tid] => TLCSet(3, [TLCGet(3) EXCEPT ![tid] = l]))
Verdict ==
  /\ PrintT(<<"ACCEPTED", TLCGet(1)>>)
  /\ PrintT(<<"PROGRESS", TLCGet(3)>>)
=============================================================================
