SPECIFICATION TSpec
CONSTANTS
  R = 2
  C = 3
  SV = 4
  SH = 6
INVARIANT C14_NonNegative
INVARIANT C14_FrameAgrees
CONSTRAINT Mark
POSTCONDITION Verdict
CHECK_DEADLOCK FALSE
