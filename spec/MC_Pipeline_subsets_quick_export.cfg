SPECIFICATION OneSpec
CONSTANTS
  FAMILY = "subsets"
  MAXSTEPS = 2
  MAXTICK = 0
  MAXLEN = 0
  STRIDE = 8
CHECK_DEADLOCK FALSE
