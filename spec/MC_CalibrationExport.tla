------------------------ MODULE MC_CalibrationExport ------------------------
EXTENDS MC_Calibration
ASSUME ExportSample(0)
=============================================================================
