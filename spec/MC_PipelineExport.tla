------------------------- MODULE MC_PipelineExport -------------------------
(* Serialises a sample of the configuration family of MC_Pipeline (see     *)
(* ExportSample there) to IOEnv.OUT_FILE; no behaviours are explored.      *)
EXTENDS MC_Pipeline
ASSUME ExportSample(0)
=============================================================================
