SPECIFICATION TSpec
INVARIANT N_Fresh
INVARIANT N_Increasing
INVARIANT N_Complete
INVARIANT N_PreUntouched
CONSTRAINT Mark
POSTCONDITION Verdict
CHECK_DEADLOCK FALSE
