SPECIFICATION TSpec
INVARIANT C18_RoundTrip
CONSTRAINT Mark
POSTCONDITION Verdict
CHECK_DEADLOCK FALSE
