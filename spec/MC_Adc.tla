-------------------------------- MODULE MC_Adc --------------------------------
EXTENDS PyxelAdc, TLCExt, Json, IOUtils
CONSTANTS MINB, MAXB, U
\* vmax = 2^b * U: every reference of the search is an integer
MCInit == \E bb \in MINB .. MAXB : \E vv \in (-2 * U) .. (Pow2(bb) * U + 2 * U) : AInitWith(bb, Pow2(bb) * U, vv)
MCSpec == MCInit /\ [][SarStep]_avars

\* laws of the ideal quantiser, checked for every resolution and every voltage of the grid
\* (range lo .. lo + FullScale(b) * S: every code transition falls on an integer voltage)
QuantiserLaws ==
  \A bb \in MINB .. MAXB :
    LET lo == 3
        S == 2
        hi == lo + FullScale(bb) * S
        q(x) == Quantise(x, lo, hi, bb)
    IN /\ \A x \in (lo - 3) .. (hi + 3) : 0 <= q(x) /\ q(x) <= FullScale(bb)           \* bounded
       /\ \A x \in (lo - 3) .. (hi + 2) : q(x) <= q(x + 1)                            \* monotone
       /\ \A x \in (lo - 3) .. lo : q(x) = 0                                          \* saturates low
       /\ \A x \in hi .. (hi + 3) : q(x) = FullScale(bb)                               \* saturates high
       /\ \A k \in 0 .. FullScale(bb) : q(lo + k * S) = k /\ (k > 0 => q(lo + k * S - 1) = k - 1)   \* every transition
ASSUME QuantiserLaws
=============================================================================
