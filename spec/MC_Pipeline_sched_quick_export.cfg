SPECIFICATION OneSpec
CONSTANTS
  FAMILY = "sched"
  MAXSTEPS = 0
  MAXTICK = 3
  MAXLEN = 3
  STRIDE = 80
CHECK_DEADLOCK FALSE
