SPECIFICATION TSpec
INVARIANT C20_Fresh
CONSTRAINT Mark
POSTCONDITION Verdict
CHECK_DEADLOCK FALSE
