SPECIFICATION MCSpec
CONSTANTS
  MAXN = 3
  MAXOFF = 3
  MAXLEN = 4
  STRIDE = 1
INVARIANT C20_Fresh
CHECK_DEADLOCK FALSE
