SPECIFICATION TSpec
CONSTRAINT Mark
POSTCONDITION Verdict
CHECK_DEADLOCK FALSE
