SPECIFICATION OneSpec
CONSTANTS
  FAMILY = "writers"
  MAXSTEPS = 2
  MAXTICK = 0
  MAXLEN = 0
  STRIDE = 12
CHECK_DEADLOCK FALSE
