SPECIFICATION OneSpec
CONSTANTS
  FAMILY = "writers"
  MAXSTEPS = 2
  MAXTICK = 0
  MAXLEN = 0
  STRIDE = 96
CHECK_DEADLOCK FALSE
