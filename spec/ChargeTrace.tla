----------------------------- MODULE ChargeTrace -----------------------------
(* Batch validation of operation histories executed on a real Charge          *)
(* container.  Trace = [events]; event = [op, arg, out, reported].            *)
EXTENDS PyxelCharge, TLCExt, Json, IOUtils

Traces == JsonDeserialize(IOEnv.TRACE_FILE)
VARIABLES tid, l
tvars == << qvars, tid, l >>
Tr == Traces[tid]
Ev == Tr.events[l]
IsOp(o) == l <= Len(Tr.events) /\ Tr.events[l].op = o

TInit == tid \in 1 .. Len(Traces) /\ l = 1 /\ QInit

TStep ==
  /\ l <= Len(Tr.events)
  /\ Ev.out = "ok"                      \* no operation of these histories may fail or crash
  /\ \/ IsOp("add_array") /\ AddArray(Ev.arg)
     \/ IsOp("add_clusters") /\ AddClusters(Ev.arg)
     \/ IsOp("remove") /\ Remove(Ev.arg)
     \/ IsOp("reset") /\ Reset
     \/ IsOp("read") /\ Read /\ Ev.reported = acc
  /\ l' = l + 1
  /\ UNCHANGED tid

Diag ==
  /\ "DIAG" \in DOMAIN IOEnv
  /\ l <= Len(Tr.events)
  /\ ~ ENABLED TStep
  /\ PrintT(<<"EXPECTED", tid, l, ToJson([acc |-> acc, rep |-> rep, nclusters |-> Len(clusters)])>>)
  /\ FALSE
  /\ UNCHANGED tvars

TNext == TStep \/ Diag
TSpec == TInit /\ [][TNext]_tvars
Accepted == l = Len(Tr.events) + 1

ASSUME TLCSet(1, {}) /\ TLCSet(3, [t \in 1 .. Len(Traces) |-> 0])
Mark ==
  /\ (Accepted => TLCSet(1, TLCGet(1) \cup {tid}))
  /\ (l > TLCGet(3)[tid] => TLCSet(3, [TLCGet(3) EXCEPT ![tid] = l]))
Verdict ==
  /\ PrintT(<<"ACCEPTED", TLCGet(1)>>)
  /\ PrintT(<<"PROGRESS", TLCGet(3)>>)
=============================================================================
