SPECIFICATION OneSpec
CONSTANTS
  FAMILY = "writers"
  MAXSTEPS = 3
  MAXTICK = 0
  MAXLEN = 0
  STRIDE = 24
CHECK_DEADLOCK FALSE
