SPECIFICATION MCSpec
CONSTANTS
  Seeds = {1, 2}
  MaxDepth = 2
  MaxDraws = 2
CONSTRAINT Bound
INVARIANT C04_Reproducible
INVARIANT C04_Restored
INVARIANT C04_StackDiscipline
INVARIANT C04_NoLeak
CHECK_DEADLOCK FALSE
