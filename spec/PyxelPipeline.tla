--------------------------- MODULE PyxelPipeline ---------------------------
(***************************************************************************)
(* One exposure run of Pyxel: readout clock, bucket life-cycle, model      *)
(* dispatch, result accumulation and failure.                              *)
(*                                                                         *)
(* One action per critical section of                                      *)
(*   pyxel.exposure.exposure.run_pipeline   (Validate, InitialEmpty,       *)
(*                                           BeginStep, EndStep, Finish)   *)
(*   pyxel.pipelines.Processor.run_pipeline (NextGroup)                    *)
(*   pyxel.pipelines.ModelGroup.run/__iter__ (SkipDisabled, RunModel,      *)
(*                                            ModelRaise)                  *)
(*                                                                         *)
(* Everything the properties quantify over is in the variable `cfg`, which *)
(* is chosen in Init (model checking) or bound from a recorded trace       *)
(* header (PipelineTrace).  Properties: C01 C02 C03 C09 C17.               *)
(*                                                                         *)
(* Abstraction: times are integer ticks (1/1024 s); the content of an      *)
(* array bucket is EMPTY (-1) or an integer level; scene and data are      *)
(* EMPTY or an integer token.                                              *)
(***************************************************************************)
EXTENDS Integers, Sequences, FiniteSets, TLC

\* The fixed physical order, copied from the statement of C01 - never read
\* from the code.
GROUPS == << "scene_generation", "photon_collection", "phasing",
             "charge_generation", "charge_collection", "charge_transfer",
             "charge_measurement", "signal_transfer", "readout_electronics",
             "data_processing" >>
NG == Len(GROUPS)

ArrayBuckets == {"photon", "charge", "pixel", "signal", "image"}
Buckets      == ArrayBuckets \cup {"scene", "data"}
EMPTY        == -1

VARIABLES
  cfg,     \* configuration: [pipe, times, start, nd, prior, imgdt, stored (buckets of a saved detector)]
  pc,      \* "new" "rejected" "ready" "begin" "run" "finish" "done" "failed"
  i,       \* index of the current readout step, 0-based
  g, m,    \* group index 1..NG+1, model index inside the group
  clock,   \* what the detector's readout properties show during the step
  bucket,  \* [Buckets -> EMPTY | level]
  calls,   \* history: one record per executed model call
  eos,     \* history: bucket contents at the end of every step
  result,  \* the returned record
  error    \* "none" or [g, name, exc, msg]

vars == << cfg, pc, i, g, m, clock, bucket, calls, eos, result, error >>

---------------------------------------------------------------------------
\* Helpers

N == Len(cfg.times)
T(k) == IF k = 0 THEN cfg.start ELSE cfg.times[k]     \* T(0) = start time; T(k) = k-th readout

Pow2(k) == 2 ^ k
\* mask: bit k set = active at step k (k < 30); -1 = active at every step
Active(model, step) == model.mask = -1 \/ (step < 30 /\ (model.mask \div Pow2(step)) % 2 = 1)

ValidSchedule(times, start) ==
  /\ Len(times) >= 1
  /\ times[1] # 0
  /\ start < times[1]
  /\ \A k \in 1 .. Len(times) - 1 : times[k] < times[k + 1]

NoClock == [time |-> 0, step |-> 0, abs |-> 0, count |-> 0, first |-> FALSE, last |-> FALSE]

ClockAt(k) ==   \* k is the 0-based step index
  [ time  |-> cfg.times[k + 1],
    step  |-> cfg.times[k + 1] - T(k),
    abs   |-> cfg.start + cfg.times[k + 1],
    count |-> k,
    first |-> k = 0,
    last  |-> k = N - 1 ]

\* detector.empty(): pixel and charge become all-zero, everything else
\* uninitialised.  `data` is not a per-exposure container and is untouched.
ResetAll(b) ==
  [ x \in Buckets |->
      CASE x \in {"pixel", "charge"} -> 0
        [] x = "data"               -> b[x]
        [] OTHER                    -> EMPTY ]

\* detector.empty(reset): pixel survives iff the readout is non-destructive.
ResetStep(b, nd) ==
  [ x \in Buckets |->
      CASE x = "charge" -> 0
        [] x = "pixel"  -> IF nd THEN b[x] ELSE 0
        [] x = "data"   -> b[x]
        [] OTHER        -> EMPTY ]

Val(b, x) == IF b[x] = EMPTY THEN 0 ELSE b[x]

\* The abstract effect of one model call on the buckets.
Effect(model, b, ck) ==
  CASE model.kind = "set" /\ Active(model, ck.count) ->
         [b EXCEPT ![model.b] = model.base + ck.count]
    [] model.kind = "cset" /\ Active(model, ck.count) ->      \* the same content at every step
         [b EXCEPT ![model.b] = model.base]
    [] model.kind = "add" /\ Active(model, ck.count) ->
         [b EXCEPT ![model.b] = Val(b, model.b) + model.base + ck.count]
    [] model.kind = "padd" /\ Active(model, ck.count) ->      \* charge added as positioned clusters
         [b EXCEPT !["charge"] = Val(b, "charge") + model.base + ck.count]
    [] model.kind = "flux" ->                         \* rate x time step
         [b EXCEPT ![model.b] = Val(b, model.b) + model.base * ck.step]
    [] model.kind = "conv" ->                         \* charge += (base/2) x photon
         [b EXCEPT !["charge"] = Val(b, "charge") + (model.base * Val(b, "photon")) \div 2]
    [] model.kind = "collect" ->                      \* pixel += charge
         [b EXCEPT !["pixel"] = Val(b, "pixel") + Val(b, "charge")]
    [] model.kind = "loaddet" /\ Active(model, ck.count) ->      \* load-detector model (C18): the running
         [x \in Buckets |-> cfg.stored[x]]                      \* detector's data become the file's
    [] OTHER -> b

Raises(model, step) == model.kind = "raise" /\ Active(model, step)

EmptyResult == [ x \in ArrayBuckets |-> << >> ] @@ [ scene |-> EMPTY, data |-> EMPTY ]

---------------------------------------------------------------------------
\* Actions

Validate ==
  /\ pc = "new"
  /\ pc' = IF ValidSchedule(cfg.times, cfg.start) THEN "ready" ELSE "rejected"
  /\ UNCHANGED << cfg, i, g, m, clock, bucket, calls, eos, result, error >>

InitialEmpty ==
  /\ pc = "ready"
  /\ bucket' = ResetAll(bucket)
  /\ pc' = "begin"
  /\ i' = 0
  /\ UNCHANGED << cfg, g, m, clock, calls, eos, result, error >>

BeginStep ==
  /\ pc = "begin"
  /\ clock' = ClockAt(i)
  /\ bucket' = ResetStep(bucket, cfg.nd)
  /\ g' = 1 /\ m' = 1
  /\ pc' = "run"
  /\ UNCHANGED << cfg, i, calls, eos, result, error >>

\* An absent group (no models configured) and the end of a group.
NextGroup ==
  /\ pc = "run" /\ g <= NG
  /\ m > Len(cfg.pipe[g])
  /\ g' = g + 1 /\ m' = 1
  /\ UNCHANGED << cfg, pc, i, clock, bucket, calls, eos, result, error >>

SkipDisabled ==
  /\ pc = "run" /\ g <= NG
  /\ m <= Len(cfg.pipe[g])
  /\ ~ cfg.pipe[g][m].enabled
  /\ m' = m + 1
  /\ UNCHANGED << cfg, pc, i, g, clock, bucket, calls, eos, result, error >>

CallRecord(model) ==
  [ step |-> i, g |-> g, name |-> model.name, args |-> model.args,
    clock |-> clock, seen |-> bucket ]

RunModel ==
  /\ pc = "run" /\ g <= NG
  /\ m <= Len(cfg.pipe[g])
  /\ LET model == cfg.pipe[g][m] IN
       /\ model.enabled
       /\ model.kind # "opaque"
       /\ ~ Raises(model, i)
       /\ calls' = Append(calls, CallRecord(model))
       /\ bucket' = Effect(model, bucket, clock)
  /\ m' = m + 1
  /\ UNCHANGED << cfg, pc, i, g, clock, eos, result, error >>

ModelRaise ==
  /\ pc = "run" /\ g <= NG
  /\ m <= Len(cfg.pipe[g])
  /\ LET model == cfg.pipe[g][m] IN
       /\ model.enabled
       /\ Raises(model, i)
       /\ calls' = Append(calls, CallRecord(model))
       /\ error' = [g |-> g, name |-> model.name, exc |-> model.b, msg |-> model.args]
  /\ pc' = "failed"
  /\ result' = EmptyResult           \* no result object is returned
  /\ UNCHANGED << cfg, i, g, m, clock, bucket, eos >>

\* A library model whose effect the specification does not predict (kind "opaque"):
\* it may leave any content in any bucket (`after`), or raise.  The life-cycle and
\* result properties must hold whatever such models do.  Used for executions of
\* the real model library recorded through the hooks (HookTrace) and by the
\* "opaque" model-checking family.
RunOpaque(after) ==
  /\ pc = "run" /\ g <= NG
  /\ m <= Len(cfg.pipe[g])
  /\ LET model == cfg.pipe[g][m] IN
       /\ model.enabled
       /\ model.kind = "opaque"
       /\ calls' = Append(calls, CallRecord(model))
  /\ bucket' = after
  /\ m' = m + 1
  /\ UNCHANGED << cfg, pc, i, g, clock, eos, result, error >>

OpaqueRaise ==
  /\ pc = "run" /\ g <= NG
  /\ m <= Len(cfg.pipe[g])
  /\ LET model == cfg.pipe[g][m] IN
       /\ model.enabled
       /\ model.kind = "opaque"
       /\ calls' = Append(calls, CallRecord(model))
       /\ error' = [g |-> g, name |-> model.name, exc |-> "opaque", msg |-> model.args]
  /\ pc' = "failed"
  /\ result' = EmptyResult
  /\ UNCHANGED << cfg, i, g, m, clock, bucket, eos >>

Slice == [ x \in ArrayBuckets |-> [label |-> clock.abs, level |-> bucket[x]] ]

\* Named deviation DEV_ImageDtypeProbe: when merging the slices of step >= 1
\* the code reads detector.image.dtype, so a run whose image bucket is empty
\* at the end of a step >= 1 fails with the container's explanatory error.
\* No listed property forbids it; such runs are failed runs.
ImageProbeFails == i >= 1 /\ bucket["image"] = EMPTY

EndStepBody ==
  /\ eos' = Append(eos, bucket)
  /\ IF ImageProbeFails
       THEN /\ pc' = "failed"
            /\ error' = [g |-> 0, name |-> "", exc |-> "ValueError", msg |-> "image-uninitialised"]
            /\ result' = EmptyResult
            /\ UNCHANGED i
       ELSE /\ result' = [ x \in DOMAIN result |->
                            IF x \in ArrayBuckets THEN Append(result[x], Slice[x]) ELSE result[x] ]
            /\ UNCHANGED error
            /\ IF i = N - 1 THEN pc' = "finish" /\ UNCHANGED i
                            ELSE pc' = "begin" /\ i' = i + 1
  /\ UNCHANGED << cfg, g, m, clock, bucket, calls >>

EndStep == pc = "run" /\ g > NG /\ EndStepBody

Finish ==
  /\ pc = "finish"
  /\ result' = [result EXCEPT !["scene"] = bucket["scene"], !["data"] = bucket["data"]]
  /\ pc' = "done"
  /\ UNCHANGED << cfg, i, g, m, clock, bucket, calls, eos, error >>

Next == \/ Validate \/ InitialEmpty \/ BeginStep \/ NextGroup \/ SkipDisabled
        \/ RunModel \/ ModelRaise \/ EndStep \/ Finish

InitWith(c) ==
  /\ cfg = c
  /\ pc = "new"
  /\ i = 0 /\ g = 1 /\ m = 1
  /\ clock = NoClock
  /\ bucket = c.prior
  /\ calls = << >>
  /\ eos = << >>
  /\ result = EmptyResult
  /\ error = "none"

---------------------------------------------------------------------------
\* A session: several runs with the same pipeline, detector and mode objects, which
\* the user reconfigures between runs (enabled flags, model arguments, schedule).
\* Every run obeys the configuration as it is when the run starts; nothing of an
\* earlier run or of an earlier configuration may survive (caches, counters).
\* The detector is re-used: a run starts from the buckets the previous one left.

\* (the histories of the previous run are dropped by Restart before anything is
\* reconfigured, so that the invariants always speak about one run and the
\* configuration it started with)
Idle == pc = "new"

Toggle(gg, mm) ==
  /\ Idle
  /\ gg \in 1 .. NG /\ mm \in 1 .. Len(cfg.pipe[gg])
  /\ cfg' = [cfg EXCEPT !.pipe[gg][mm].enabled = ~ @]
  /\ UNCHANGED << pc, i, g, m, clock, bucket, calls, eos, result, error >>

SetArgs(gg, mm, a) ==
  /\ Idle
  /\ gg \in 1 .. NG /\ mm \in 1 .. Len(cfg.pipe[gg])
  /\ cfg' = [cfg EXCEPT !.pipe[gg][mm].args = a]
  /\ UNCHANGED << pc, i, g, m, clock, bucket, calls, eos, result, error >>

Reschedule(ts, st, nd) ==
  /\ Idle
  /\ cfg' = [cfg EXCEPT !.times = ts, !.start = st, !.nd = nd]
  /\ UNCHANGED << pc, i, g, m, clock, bucket, calls, eos, result, error >>

\* the file that the load-detector model reads is rewritten between two runs
Rewrite(st) ==
  /\ Idle
  /\ cfg' = [cfg EXCEPT !.stored = st]
  /\ UNCHANGED << pc, i, g, m, clock, bucket, calls, eos, result, error >>

Restart ==
  /\ pc \in {"done", "failed", "rejected"}
  /\ pc' = "new"
  /\ i' = 0 /\ g' = 1 /\ m' = 1
  /\ clock' = NoClock
  /\ calls' = << >> /\ eos' = << >>
  /\ result' = EmptyResult
  /\ error' = "none"
  /\ UNCHANGED << cfg, bucket >>

---------------------------------------------------------------------------
\* C01 - enabled models run once per readout, in the fixed physical order.
\* ExpectedCalls is written from the statement: steps in order, groups in the
\* canonical order, listed position inside a group, enabled models only.

RECURSIVE FlatGroups(_, _, _)
FlatGroups(pipe, k, step) ==
  IF k > NG THEN << >>
  ELSE LET en == SelectSeq(pipe[k], LAMBDA x : x.enabled)
       IN  [ j \in 1 .. Len(en) |-> [step |-> step, g |-> k, name |-> en[j].name, args |-> en[j].args] ]
           \o FlatGroups(pipe, k + 1, step)

RECURSIVE ExpectedFrom(_, _, _)
ExpectedFrom(pipe, step, n) ==
  IF step >= n THEN << >> ELSE FlatGroups(pipe, 1, step) \o ExpectedFrom(pipe, step + 1, n)

ExpectedCalls == ExpectedFrom(cfg.pipe, 0, N)

ProjCalls == [ k \in 1 .. Len(calls) |->
               [step |-> calls[k].step, g |-> calls[k].g, name |-> calls[k].name, args |-> calls[k].args] ]

IsPrefixOf(s, t) == Len(s) <= Len(t) /\ \A k \in 1 .. Len(s) : s[k] = t[k]

C01_NeverAWrongCall == IsPrefixOf(ProjCalls, ExpectedCalls)
C01_AllCallsWhenDone == pc = "done" => ProjCalls = ExpectedCalls
C01_Rejected        == pc = "rejected" => calls = << >>

---------------------------------------------------------------------------
\* C02 - clock and per-step bucket life-cycle.

C02_Clock ==
  \A k \in 1 .. Len(calls) :
    LET c == calls[k] IN
      c.clock = [ time  |-> cfg.times[c.step + 1],
                  step  |-> cfg.times[c.step + 1] - T(c.step),
                  abs   |-> cfg.start + cfg.times[c.step + 1],
                  count |-> c.step,
                  first |-> c.step = 0,
                  last  |-> c.step = N - 1 ]

FirstOfStep(k) == k = 1 \/ calls[k - 1].step # calls[k].step

C02_StepStart ==
  \A k \in 1 .. Len(calls) :
    FirstOfStep(k) =>
      LET c == calls[k] IN
        /\ \A x \in {"scene", "photon", "signal", "image"} : c.seen[x] = EMPTY
        /\ c.seen["charge"] = 0
        /\ c.seen["pixel"] = IF cfg.nd /\ c.step > 0 THEN eos[c.step]["pixel"] ELSE 0

\* eos has an entry for every completed step; a step in which no model ran
\* still ends, so eos[c.step] exists for every later call.
C02_EosDefined == \A k \in 1 .. Len(calls) : calls[k].step <= Len(eos)

C02_OncePerReadout == pc = "done" => Len(eos) = N

---------------------------------------------------------------------------
\* C03 - the result is a faithful, complete record.

C03_Faithful ==
  pc = "done" =>
    \A x \in ArrayBuckets : \A k \in 1 .. N :
      eos[k][x] # EMPTY =>
        /\ result[x][k].level = eos[k][x]
        /\ result[x][k].label = cfg.start + cfg.times[k]

C03_Complete ==
  pc = "done" => \A x \in ArrayBuckets : Len(result[x]) = N

C03_PassThrough ==
  pc = "done" => result["scene"] = bucket["scene"] /\ result["data"] = bucket["data"]

---------------------------------------------------------------------------
\* C09 (exposure part) - a raising model fails the run.

C09_Propagates ==
  (\E k \in 1 .. Len(calls) :
      LET c == calls[k] IN
        \E mm \in 1 .. Len(cfg.pipe[c.g]) :
          cfg.pipe[c.g][mm].name = c.name /\ Raises(cfg.pipe[c.g][mm], c.step))
    => pc \in {"failed"} /\ result = EmptyResult

C09_Identity ==
  (pc = "failed" /\ error.g # 0) =>
     LET c == calls[Len(calls)] IN
       /\ error.g = c.g /\ error.name = c.name /\ error.msg = c.args

\* no call is logged after the raising one: once failed, nothing is enabled
C09_Stops == pc \in {"failed", "rejected", "done"} => ~ ENABLED (Next \/ OpaqueRaise)

---------------------------------------------------------------------------
\* C17 - for flux-integrating pipelines the accumulated pixel charge depends
\* only on the interval.  TotalRate is the pixel charge collected per tick.

RECURSIVE SumSeq(_)
SumSeq(s) == IF s = << >> THEN 0 ELSE Head(s) + SumSeq(Tail(s))

RateOf(x) ==   \* total rate (per tick) of the enabled flux models feeding bucket x
  SumSeq([ k \in 1 .. NG |->
           SumSeq([ j \in 1 .. Len(cfg.pipe[k]) |->
                    IF cfg.pipe[k][j].enabled /\ cfg.pipe[k][j].kind = "flux" /\ cfg.pipe[k][j].b = x
                      THEN cfg.pipe[k][j].base ELSE 0 ]) ])

ConvFactor ==
  SumSeq([ j \in 1 .. Len(cfg.pipe[4]) |->
           IF cfg.pipe[4][j].enabled /\ cfg.pipe[4][j].kind = "conv" THEN cfg.pipe[4][j].base ELSE 0 ])

PixelRate == RateOf("charge") + (ConvFactor * RateOf("photon")) \div 2

C17_NonDestructive ==
  (pc = "done" /\ cfg.nd) => bucket["pixel"] = PixelRate * (cfg.times[N] - cfg.start)

C17_Destructive ==
  (pc = "done" /\ ~ cfg.nd) =>
     \A k \in 1 .. N : eos[k]["pixel"] = PixelRate * (cfg.times[k] - T(k - 1))
=============================================================================
