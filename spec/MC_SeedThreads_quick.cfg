SPECIFICATION MCSpec
CONSTANTS
  Threads = {"t1", "t2"}
  Seeds = {1, 2}
  Kinds = {"uniform"}
  MaxDepth = 2
  MaxDraws = 3
  MaxHist = 6
  LOCKED = TRUE
  STRIDE = 40
CONSTRAINT Both
POSTCONDITION Export
INVARIANT C04T_Restored
INVARIANT C04T_Reproducible
INVARIANT LockInv
INVARIANT Exclusive
CHECK_DEADLOCK FALSE
