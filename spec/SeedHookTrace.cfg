SPECIFICATION HSpec
CONSTANTS
  Threads = {"t1", "t2", "t3", "t4", "t5", "t6", "t7", "t8"}
  Seeds = {1}
  Kinds = {"uniform"}
  MaxDepth = 50
  MaxDraws = 0
  MaxHist = 100000
  LOCKED = TRUE
CONSTRAINT Mark
POSTCONDITION Verdict
INVARIANT LockInv
INVARIANT Exclusive
CHECK_DEADLOCK FALSE
