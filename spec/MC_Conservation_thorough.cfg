SPECIFICATION MCSpec
CONSTANTS
  MAXS = 3
  STRIDE = 397
CHECK_DEADLOCK FALSE
