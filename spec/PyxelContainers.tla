-------------------------- MODULE PyxelContainers --------------------------
(***************************************************************************)
(* The array containers of a detector (Photon, Pixel, Signal, Image,       *)
(* Phase) as one small state machine per container.  Property C13.         *)
(*                                                                         *)
(* State: `cont` is the abstract content of the container under test:      *)
(*   [empty, shapeok, dt, neg, val, three]                                 *)
(* (`val` identifies which argument's data is held; `three` = it holds a   *)
(* multi-wavelength cube).  Every operation of the public interface is an  *)
(* action; its required outcome is written from the statement of C13.      *)
(***************************************************************************)
EXTENDS Integers, Sequences, FiniteSets, TLC

VARIABLES kind,   \* "photon" "pixel" "signal" "image" "phase"
          cont,   \* abstract content
          hist,   \* history of operations: Seq([op, arg, out, after])
          last    \* outcome of the last operation: [out, ret]

cvars == << kind, cont, hist, last >>

Kinds == {"photon", "pixel", "signal", "image", "phase"}
FloatTypes == {"float16", "float32", "float64"}
UIntTypes  == {"uint8", "uint16", "uint32", "uint64"}
Allowed(k) == IF k = "image" THEN UIntTypes ELSE FloatTypes     \* from the statement

EmptyC == [empty |-> TRUE, shapeok |-> TRUE, dt |-> "", neg |-> FALSE, val |-> 0, three |-> FALSE, nan |-> FALSE]
ZeroC  == [empty |-> FALSE, shapeok |-> TRUE, dt |-> "float64", neg |-> FALSE, val |-> 0, three |-> FALSE, nan |-> FALSE]

\* An argument descriptor: [carrier, shape, dtype, neg, nan, id]
\*   carrier: "ndarray" "list" "scalar" "none" "cube" (3-D DataArray wavelength,y,x)
\*   shape  : "ok" or anything else
\* numpy.asarray() turns a list, a 2-D DataArray or a scalar into an ndarray
\* (of the shape the descriptor names); a cube stays a cube.
AsArray(a) == IF a.carrier \in {"list", "dataarray2d", "scalar"} THEN [a EXCEPT !.carrier = "ndarray"] ELSE a

Valid2D(k, a) == a.carrier = "ndarray" /\ a.shape = "ok" /\ a.dtype \in Allowed(k)
ValidCube(k, a) == k = "photon" /\ a.carrier = "cube" /\ a.shape = "ok" /\ a.dtype \in FloatTypes

\* content after a valid assignment; photon counts are clipped at zero
Norm(k, a) ==
  [empty |-> FALSE, shapeok |-> TRUE, dt |-> a.dtype,
   neg |-> IF k = "photon" THEN FALSE ELSE a.neg, val |-> a.id, three |-> a.carrier = "cube",
   nan |-> a.nan]

WellFormed(k, c) ==
  c.empty \/ (c.shapeok /\ c.dt \in Allowed(k) /\ (c.three => k = "photon"))

Record(op, a, out, ret) ==
  /\ hist' = Append(hist, [op |-> op, arg |-> a, out |-> out, after |-> cont'])
  /\ last' = [out |-> out, ret |-> ret]

NoArg == [carrier |-> "none", shape |-> "ok", dtype |-> "", neg |-> FALSE, nan |-> FALSE, id |-> 0]

\* container.array = a  /  container.array_3d = a
Set(a) ==
  /\ IF Valid2D(kind, a) \/ ValidCube(kind, a)
       THEN cont' = Norm(kind, a) /\ Record("set", a, "ok", 0)
       ELSE cont' = cont /\ Record("set", a, "error", 0)      \* previous content untouched
  /\ UNCHANGED kind

\* container.update(a): None empties, anything else is asarray + assignment
Update(a) ==
  /\ IF a.carrier = "none"
       THEN cont' = EmptyC /\ Record("update", a, "ok", 0)
       ELSE IF Valid2D(kind, AsArray(a))
              THEN cont' = Norm(kind, AsArray(a)) /\ Record("update", a, "ok", 0)
              ELSE cont' = cont /\ Record("update", a, "error", 0)
  /\ UNCHANGED kind

\* container += a.  On an empty container this is an assignment and must be
\* validated like one.  On a holding container numpy's in-place addition
\* decides (broadcasting, casting); whatever it decides, the container stays
\* well-formed, and an error leaves the content untouched.
IAddEmpty(a) ==
  /\ cont.empty
  /\ IF Valid2D(kind, a) \/ ValidCube(kind, a)
       THEN cont' = Norm(kind, a) /\ Record("iadd", a, "ok", 0)
       ELSE cont' = cont /\ Record("iadd", a, "error", 0)
  /\ UNCHANGED kind

IAddHolding(a, ok, v, n, q) ==   \* v, n, q: resulting data identity, sign, NaN-ness (numpy's business)
  /\ ~ cont.empty
  \* same shape, same dtype (in place).  Named deviation DEV_IAddErrorMayHaveAdded: with a
  \* DataArray operand numpy adds in place and the container then refuses to re-bind the
  \* result, so an error may be raised after the addition happened; the statement demands
  \* "untouched" of refused *assignments*, so only well-formedness is required here.
  /\ cont' = [cont EXCEPT !.val = v, !.neg = n, !.nan = q]
  /\ Record("iadd", a, IF ok THEN "ok" ELSE "error", 0)
  /\ UNCHANGED kind

\* container.empty(): pixel is reset to a zero frame, the others become empty
Reset ==
  /\ cont' = IF kind = "pixel" THEN ZeroC ELSE EmptyC
  /\ Record("reset", NoArg, "ok", 0)
  /\ UNCHANGED kind

\* reading .array (.array_3d for a cube)
Read ==
  /\ cont' = cont
  /\ IF cont.empty THEN Record("read", NoArg, "error", 0)      \* explanatory error, never stale data
                   ELSE Record("read", NoArg, "ok", cont.val)
  /\ UNCHANGED kind

\* comparison with another container o:
\*   "copy" a deep copy of this one, "empty" an empty one of the same kind and shape,
\*   "diff" same kind and shape holding other data, "otherkind", "othershape"
EqExpected(o) ==
  CASE o = "copy"  -> TRUE
    [] o = "empty" -> cont.empty
    [] OTHER       -> FALSE

\* r: the observed result (1 TRUE, 0 FALSE).  Arrays holding NaN are not equal to
\* themselves under IEEE-754, so a copy of such content may compare either way.
Eq(o, r) ==
  /\ cont' = cont
  /\ r \in {0, 1}
  /\ (o = "copy" /\ cont.nan) \/ r = (IF EqExpected(o) THEN 1 ELSE 0)
  /\ Record("eq", [NoArg EXCEPT !.carrier = o], "ok", r)
  /\ UNCHANGED kind

CInitWith(k, c) ==
  /\ kind = k /\ cont = c /\ hist = << >> /\ last = [out |-> "ok", ret |-> 0]

\* C13: whatever the history, the container is empty or well-formed ...
C13_WellFormed == WellFormed(kind, cont)
\* ... an assigned photon count is never negative ...
C13_PhotonSign ==
  \A k \in 1 .. Len(hist) :
    (kind = "photon" /\ hist[k].out = "ok" /\ hist[k].op \in {"set", "update"}) => ~ hist[k].after.neg
\* ... a refused operation leaves the previous content untouched
C13_ErrorLeavesUntouched ==
  \A k \in 1 .. Len(hist) :
    (hist[k].out = "error" /\ hist[k].op \in {"set", "update"}) =>
      hist[k].after = (IF k = 1 THEN hist[k].after ELSE hist[k - 1].after)
=============================================================================
