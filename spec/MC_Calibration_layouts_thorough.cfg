SPECIFICATION MCSpec
CONSTANTS
  FAMILY = "layouts"
  MAXV = 3
  STRIDE = 200
INVARIANT C11_CheckedFirst
INVARIANT C10_InBounds
INVARIANT C10_Layout
CHECK_DEADLOCK FALSE
