---------------------------- MODULE MC_Settings ----------------------------
(* Every (entry point, key variant, value) over a representative processor. *)
EXTENDS PyxelSettings, TLCExt, Json, IOUtils, SequencesExt
CONSTANTS MAXLEN, STRIDE

Leaves0 ==
  { <<"detector", "characteristics", f>> : f \in {"quantum_efficiency", "charge_to_volt_conversion", "pre_amplification",
                                                   "full_well_capacity", "adc_bit_resolution"} }
  \cup { <<"detector", "environment", "temperature">>, <<"detector", "environment", "wavelength">> }
  \cup { <<"detector", "geometry", f>> : f \in {"row", "col", "total_thickness", "pixel_vert_size", "pixel_horz_size"} }
  \cup { <<"pipeline", "photon_collection", "m1", "arguments", "a">>, <<"pipeline", "photon_collection", "m1", "arguments", "b">>,
         <<"pipeline", "photon_collection", "m1", "arguments", "opt", "level">>,
         <<"pipeline", "photon_collection", "m1", "arguments", "opt", "keep">>,
         <<"pipeline", "photon_collection", "m1", "enabled">>,
         <<"pipeline", "charge_generation", "m2", "arguments", "c">>, <<"pipeline", "charge_generation", "m2", "enabled">> }
Cfg0 == [leaves |-> Leaves0, disabled |-> { <<"pipeline", "charge_generation", "m2">> }]
Tree0 == [l \in Leaves0 |-> IF FieldOf(l) = "wavelength" THEN Unset      \* optional, not given at construction
                             ELSE IF FieldOf(l) \in Limited THEN Num(IF FieldOf(l) \in {"row", "col", "adc_bit_resolution"} THEN 8 ELSE 1, 1)
                             ELSE IF FieldOf(l) = "enabled"
                                    THEN Txt(IF SubSeq(l, 1, 3) \in Cfg0.disabled THEN "bool:False" ELSE "bool:True")
                                    ELSE Txt("init")]

\* key variants of a leaf: exact, last component misspelt, a middle component misspelt,
\* truncated, an undeclared argument
Misspell(c) == c \o "x"
Variants(l) ==
  { l, [l EXCEPT ![Len(l)] = Misspell(l[Len(l)])], [l EXCEPT ![2] = Misspell(l[2])], SubSeq(l, 1, Len(l) - 1) }
  \cup (IF IsModelArg(l) THEN { [l EXCEPT ![5] = "undeclared"], [l EXCEPT ![3] = Misspell(l[3])],
                                [l EXCEPT ![4] = "argument"] } ELSE {})
Keys(_z) == UNION { Variants(l) : l \in Leaves0 }

Grid(f) ==
  LET L == Limits[f] IN
    (IF L.int THEN { Num(0, 1), Num(L.lo - 1, 1), Num(L.lo, 1), Num(L.lo + 1, 1) }
              ELSE { Num(L.lo * 2 - 1, 2), Num(L.lo, 1), Num(2 * L.lo + 1, 2), Num(L.lo + 1, 1) })
    \cup (IF L.hi = -1 THEN { Num(100000, 1) }
          ELSE IF L.int THEN { Num(L.hi, 1), Num(L.hi + 1, 1), Num(L.hi * 10, 1) }
          ELSE { Num(L.hi, 1), Num(2 * L.hi + 1, 2), Num(L.hi * 10, 1) })
    \* not-a-number: every comparison with it is false, so a limit written as `v < lo or v > hi` lets it through
    \cup (IF L.int THEN {} ELSE { Txt("float:nan") })
Values(key) ==
  IF key \in Leaves0 /\ FieldOf(key) \in Limited /\ IsDetectorLeaf(key) THEN Grid(FieldOf(key))
  ELSE { Num(3, 1), Num(5, 2), Num(0, 1), Txt("str:zz"), Txt("list:[1, 2]"), Txt("list:[0, 5]"), Txt("list:[[0, 1], [2, 0]]") }

Paths == {"sweep", "override", "setattr", "construct", "yaml"}
MCNext ==
  \/ /\ Len(hist) < MAXLEN
     /\ \E p \in Paths, key \in Keys(0) : \E v \in Values(key) :
          /\ (p \in {"setattr", "construct", "yaml"} => key \in Leaves0 /\ IsDetectorLeaf(key))
          /\ Assign(p, key, v)
  \/ (Len(hist) < MAXLEN /\ \E nm \in 0 .. 2, nd \in 0 .. 2 : LoadDocument(nm, nd))
MCInit == SInitWith(Cfg0, Tree0)
MCSpec == MCInit /\ [][MCNext]_svars

ASSUME TLCSet(2, << >>) /\ TLCSet(4, 0)
Emit ==
  (Len(hist) = MAXLEN) =>
    /\ TLCSet(4, TLCGet(4) + 1)
    /\ (TLCGet(4) % STRIDE = 0 =>
          TLCSet(2, Append(TLCGet(2), [k \in 1 .. Len(hist) |-> [op |-> hist[k].op, path |-> hist[k].path, key |-> hist[k].key, val |-> hist[k].val]])))
Export ==
  /\ PrintT(<<"HISTORIES", TLCGet(4)>>)
  /\ IF "OUT_FILE" \in DOMAIN IOEnv THEN JsonSerialize(IOEnv.OUT_FILE, TLCGet(2)) ELSE TRUE
=============================================================================
