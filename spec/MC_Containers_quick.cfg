SPECIFICATION MCSpec
CONSTANTS
  MAXLEN = 3
  STRIDE = 40
INVARIANT C13_WellFormed
INVARIANT C13_PhotonSign
INVARIANT C13_ErrorLeavesUntouched
CONSTRAINT Emit
POSTCONDITION Export
CHECK_DEADLOCK FALSE
