SPECIFICATION TSpec
INVARIANT C11_CheckedFirst
INVARIANT C10_InBounds
INVARIANT C10_Layout
CONSTRAINT Mark
POSTCONDITION Verdict
CHECK_DEADLOCK FALSE
