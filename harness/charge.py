"""C14: execute operation histories on a real Charge container.

Histories may make the (unchecked, numba-compiled) binning kernel read or write out of
bounds, so they run in child processes; a child that dies is bisected down to the
history that kills it ("crash")."""

from __future__ import annotations

import json
import os
import subprocess
import sys
import tempfile

import numpy as np

from harness import px


def make_charge(geom):
    r, c, sv, sh = geom
    det = px.make_detector("ccd", r, c, pixel_vert_size=float(sv), pixel_horz_size=float(sh))
    return det.charge, det


def run_history(ops, geom):
    r, c, sv, sh = geom
    charge, det = make_charge(geom)
    events = []
    guard = np.full(64, 7.0)       # a canary allocated next to the container's buffers
    pool = {}                      # arrays the caller keeps: values -> the one ndarray object that holds them
    for o in ops:
        op, arg = o["op"], o["arg"]
        ev = {"op": op, "arg": arg, "out": "ok"}
        try:
            if op == "add_array":
                # a caller that adds the same values again passes the SAME array object again (a pattern kept
                # by a model between steps): the container must not hold on to, or write into, its argument
                a2 = pool.get(tuple(arg))
                if a2 is None:
                    a2 = np.array(arg, dtype=float).reshape(r, c)
                    if (len(events) + int(sum(arg))) % 2:      # the same values in another memory layout (valid input)
                        a2 = np.asfortranarray(a2)
                    pool[tuple(arg)] = a2
                charge.add_charge_array(a2)
            elif op == "add_clusters":
                n = len(arg)
                z = np.zeros(n)
                charge.add_charge(particle_type="e",
                                  particles_per_cluster=np.array([x["n"] for x in arg], dtype=float),
                                  init_energy=z, init_ver_position=np.array([x["ver"] for x in arg], dtype=float),
                                  init_hor_position=np.array([x["hor"] for x in arg], dtype=float),
                                  init_z_position=z, init_ver_velocity=z, init_hor_velocity=z, init_z_velocity=z)
            elif op == "remove":
                charge.remove_from_frame(list(arg) if arg else None)
            elif op == "reset":
                charge.empty()
            elif op == "read":
                a = np.asarray(charge.array, dtype=float)
                if a.shape != (r, c):
                    ev["out"] = "error"
                    ev["why"] = f"shape {a.shape}"
                    ev["reported"] = []
                else:
                    ev["reported"] = [int(v) if float(v).is_integer() else -1 for v in a.ravel()]
        except Exception as e:
            ev["out"] = "error"
            ev["why"] = f"{type(e).__name__}: {str(e)[:80]}"
        events.append(ev)
    if not (guard == 7.0).all():
        events.append({"op": "read", "arg": [], "out": "crash", "why": "canary overwritten"})
    return events


def _child(path_in, path_out):
    data = json.load(open(path_in))
    out = []
    for case in data["cases"]:
        out.append(run_history(case, data["geom"]))
        # progress marker so that the parent knows how far we got if we die
        with open(path_out + ".progress", "w") as fh:
            fh.write(str(len(out)))
    json.dump(out, open(path_out, "w"))


def run_batch(cases, geom, workdir):
    """Run `cases` in a child; on a crash, mark the killer and continue with the rest."""
    results = [None] * len(cases)
    todo = list(range(len(cases)))
    env = dict(os.environ)
    env["PYTHONPATH"] = px.REPO + os.pathsep + px.VERIF + os.pathsep + env.get("PYTHONPATH", "")
    while todo:
        fd, pin = tempfile.mkstemp(suffix=".json", dir=workdir)
        os.close(fd)
        pout = pin + ".out"
        json.dump({"cases": [cases[k] for k in todo], "geom": list(geom)}, open(pin, "w"))
        proc = subprocess.run([sys.executable, "-c",
                               "import sys; sys.path.insert(0, %r); from harness import charge; charge._child(%r, %r)"
                               % (px.VERIF, pin, pout)], env=env, capture_output=True, text=True, timeout=1800)
        done = 0
        if os.path.exists(pout):
            outs = json.load(open(pout))
            for k, evs in zip(todo, outs):
                results[k] = evs
            todo = []
        else:
            if os.path.exists(pout + ".progress"):
                done = int(open(pout + ".progress").read() or 0)
            # histories before `done` are fine but their results were lost with the child: re-run them alone
            killer = todo[done]
            results[killer] = [{"op": o["op"], "arg": o["arg"], "out": "ok"} for o in cases[killer]]
            results[killer][-1] = dict(results[killer][-1], out="crash",
                                       why=f"child process died (exit {proc.returncode}): {proc.stderr[-200:]}")
            todo = todo[:done] + todo[done + 1:]
        for f in (pin, pout, pout + ".progress"):
            if os.path.exists(f):
                os.unlink(f)
    return results
