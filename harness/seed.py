"""C04: record generator histories of seeded model calls and seeded runs."""

from __future__ import annotations

import hashlib
import importlib
import os
import warnings

import numpy as np

from harness import px

_ORIG = {n: getattr(np.random, n) for n in ("seed", "get_state", "set_state")}
DRAWS = ["normal", "poisson", "binomial", "random", "uniform", "rand", "randn", "randint", "choice",
         "standard_normal", "random_sample", "exponential", "gamma", "lognormal"]
_ORIG_DRAWS = {n: getattr(np.random, n) for n in DRAWS if hasattr(np.random, n)}


def state_digest(st=None) -> str:
    """Digest of the *whole* legacy generator state (key, position, pending Gaussian)."""
    st = _ORIG["get_state"]() if st is None else st
    h = hashlib.sha1()
    h.update(str(st[0]).encode())
    h.update(np.asarray(st[1]).tobytes())
    h.update(repr((int(st[2]), int(st[3]), float(st[4]))).encode())
    return h.hexdigest()[:16]


class Injected(RuntimeError):
    pass


class Watch:
    """Patch numpy.random.{get_state, seed, set_state} (and optionally make the n-th draw raise)."""

    def __init__(self, events, fail_at=None):
        self.events = events
        self.fail_at = fail_at
        self.ndraw = 0

    def __enter__(self):
        ev = self.events

        def get_state(*a, **k):
            st = _ORIG["get_state"](*a, **k)
            ev.append({"e": "get", "tok": state_digest(st)})
            return st

        def seed(s=None):
            _ORIG["seed"](s)
            ev.append({"e": "seed", "seed": int(s) if s is not None else -1, "tok": state_digest()})

        def set_state(st):
            _ORIG["set_state"](st)
            ev.append({"e": "set", "tok": state_digest(st)})

        np.random.get_state, np.random.seed, np.random.set_state = get_state, seed, set_state
        if self.fail_at is not None:
            for name, fn in _ORIG_DRAWS.items():
                setattr(np.random, name, self._failing(fn))
        return self

    def _failing(self, fn):
        def wrapper(*a, **k):
            self.ndraw += 1
            if self.ndraw == self.fail_at:
                raise Injected("fault injected at a draw")
            return fn(*a, **k)
        return wrapper

    def __exit__(self, *exc):
        for n, f in _ORIG.items():
            setattr(np.random, n, f)
        for n, f in _ORIG_DRAWS.items():
            setattr(np.random, n, f)
        return False


def out_digest(detector) -> str:
    h = hashlib.sha1()
    for b in ("photon", "pixel", "signal", "image"):
        a = getattr(detector, b)._array
        if a is not None:
            h.update(np.asarray(a).tobytes())
    h.update(np.asarray(detector.charge.array).tobytes())
    if not detector.charge.frame_empty():
        h.update(detector.charge.frame.to_numpy().tobytes())
    return h.hexdigest()[:16]


def outside(events, k: int):
    """Unrelated code using the process-wide generator between observed calls."""
    if k % 3 == 0:
        np.random.normal(size=1)          # leaves a pending Gaussian in the generator cache
    elif k % 3 == 1:
        np.random.random(3)
    else:
        np.random.normal(size=2)
        np.random.poisson(3.0, size=2)
    events.append({"e": "outside", "tok": state_digest()})


# ---- fixtures for the census of seeded model functions ------------------------------------------

def _qe_map(shape):
    d = os.path.join(os.environ.get("VERIF_WORK", px.VERIF + "/.work"), "flux_files")
    os.makedirs(d, exist_ok=True)
    f = os.path.join(d, f"qe_{shape[0]}x{shape[1]}.npy")
    if not os.path.exists(f):
        tmp = f + f".{os.getpid()}.npy"
        np.save(tmp, np.full(shape, 0.5))
        os.replace(tmp, f)
    return f


FIXTURES = {
    "pyxel.models.photon_collection.shot_noise.shot_noise": [("ccd", {"type": "poisson"}), ("ccd", {"type": "normal"})],
    "pyxel.models.charge_generation.photoelectrons.simple_conversion":
        [("ccd", {"quantum_efficiency": 0.5, "binomial_sampling": True})],
    "pyxel.models.charge_generation.photoelectrons.conversion_with_qe_map":
        [("ccd", {"filename": "@qe", "binomial_sampling": True})],
    "pyxel.models.charge_generation.simple_dark_current.simple_dark_current": [("ccd", {"dark_rate": 10.0})],
    "pyxel.models.charge_generation.dark_current.dark_current":
        [("ccd", {"figure_of_merit": 1.0, "spatial_noise_factor": 0.1, "temporal_noise": True})],
    "pyxel.models.charge_generation.dark_current_rule07.dark_current_rule07":
        [("cmos", {"cutoff_wavelength": 2.5, "spatial_noise_factor": 0.1, "temporal_noise": True})],
    "pyxel.models.charge_generation.dark_current_saphira.dark_current_saphira": [("apd", {"@temperature": 80.0})],
    "pyxel.models.charge_generation.dark_current_induced.radiation_induced_dark_current":
        [("ccd", {"depletion_volume": 64.0, "annealing_time": 0.1, "displacement_dose": 5000.0, "shot_noise": True})],
    "pyxel.models.charge_generation.charge_deposition.charge_deposition":
        [("ccd", {"flux": 1000.0, "step_size": 1.0, "energy_mean": 1.0, "energy_spread": 0.1,
                  "stopping_power_curve": "@data/protons-in-silicon_stopping-power.csv"})],
    "pyxel.models.charge_generation.charge_deposition.charge_deposition_in_mct":
        [("cmos", {"flux": 1000.0, "step_size": 1.0, "energy_mean": 1.0, "energy_spread": 0.1,
                   "stopping_power_curve": "@data/mct-stopping-power.csv"})],
    "pyxel.models.charge_collection.fixed_pattern_noise.fixed_pattern_noise":
        [("ccd", {"fixed_pattern_noise_factor": 0.01})],
    "pyxel.models.charge_measurement.readout_noise.output_node_noise": [("ccd", {"std_deviation": 0.01})],
    "pyxel.models.charge_measurement.readout_noise.output_node_noise_cmos":
        [("cmos", {"readout_noise": 1.0, "readout_noise_std": 0.1})],
    "pyxel.models.charge_measurement.readout_noise.readout_noise_saphira":
        [("apd", {"roic_readout_noise": 1.0, "controller_noise": 0.1})],
    "pyxel.models.charge_measurement.reset_noise.ktc_noise": [("cmos", {"node_capacitance": 30.0e-15})],
    "pyxel.models.charge_measurement.nghxrg.nghxrg.nghxrg":
        [("cmos", {"noise": [{"white_read_noise": {"rd_noise": 5.0, "ref_pixel_noise_ratio": 0.8}}],
                   "n_output": 1, "n_row_overhead": 0, "n_frame_overhead": 0})],
}


def census() -> dict:
    """Every callable under pyxel.models taking (detector, ..., seed)."""
    import inspect
    import pkgutil

    import pyxel.models as M
    found = {}
    for mi in pkgutil.walk_packages(M.__path__, M.__name__ + "."):
        try:
            mod = importlib.import_module(mi.name)
        except Exception:
            continue
        for n, f in vars(mod).items():
            if inspect.isfunction(f) and f.__module__ == mod.__name__:
                try:
                    ps = inspect.signature(f).parameters
                except Exception:
                    continue
                if "seed" in ps and "detector" in ps:
                    found[f"{mod.__name__}.{n}"] = f
    return found


def prepared_detector(kind: str, shape):
    det = px.make_detector(kind, *shape)
    det.environment.temperature = 300.0
    det.set_readout(times=[1.0], start_time=0.0)
    det.readout_properties.time = 1.0
    det.readout_properties.time_step = 1.0
    det.empty()
    base = np.arange(shape[0] * shape[1], dtype=float).reshape(shape) * 7.0 + 500.0
    det.photon.array = base.copy()
    det.charge.add_charge_array(base.copy())
    det.pixel.array = base.copy()
    det.signal.array = base.copy() * 1e-3
    return det


def census_job(job) -> dict:
    """Trace of one seeded function: two calls with the same input and seed, from different
    generator states, with unrelated draws in between; optionally a fault at the n-th draw."""
    name, kind, kwargs, seed, shape, fail_at, k = (job[x] for x in ("fn", "kind", "kwargs", "seed", "shape", "fail_at", "k"))
    mod, _, fname = name.rpartition(".")
    fn = getattr(importlib.import_module(mod), fname)
    temperature = kwargs.get("@temperature")
    datadir = os.path.join(px.REPO, "pyxel", "models", "charge_generation", "data")
    kwargs = {a: (_qe_map(tuple(shape)) if v == "@qe" else
                  os.path.join(datadir, v[6:]) if isinstance(v, str) and v.startswith("@data/") else v)
              for a, v in kwargs.items() if not a.startswith("@")}
    events = []
    outer = job.get("outer")         # the function has no seed of its own and runs under a pipeline seed
    key = f"{name}|{sorted(kwargs.items())!r}|seed={seed}|outer={outer}|{shape}"
    _ORIG["seed"](1000 + k)
    outside(events, k)
    err = ""
    with warnings.catch_warnings():
        warnings.simplefilter("ignore")
        for rep in range(2):
            det = prepared_detector(kind, tuple(shape))
            if temperature:
                det.environment.temperature = temperature
            events.append({"e": "begin", "key": key, "tok": state_digest()})
            raised = False
            with Watch(events, fail_at if rep == 1 else None):
                try:
                    if outer is not None:
                        from pyxel.util import set_random_seed
                        with set_random_seed(outer):
                            fn(det, seed=None, **kwargs)
                    else:
                        fn(det, seed=seed, **kwargs)
                except Injected:
                    raised = True
                except Exception as e:
                    raised = True
                    err = f"{type(e).__name__}: {str(e)[:120]}"
            events.append({"e": "end", "key": key, "tok": state_digest(), "out": out_digest(det), "raised": raised})
            if err:
                break
            outside(events, k + rep + 1)
    return {"events": events, "case": {"kind": "census", "job": job}, "fixture_error": err}


# ---- stochastic probe model for seeded runs ------------------------------------------------------

def rnd_probe(detector, seed=None, fail=False, **kw):
    """Draws from the process-wide generator; with its own `seed` it uses the library's protocol."""
    from pyxel.util import set_random_seed
    shape = (detector.geometry.row, detector.geometry.col)
    with set_random_seed(seed):
        noise = np.random.normal(size=shape) + np.random.poisson(5.0, size=shape)
        if fail:
            raise ValueError("stochastic probe failed")
    detector.photon.array = np.abs(noise) + 1.0
    detector.signal.array = np.random.random(shape)
    detector.image.array = np.ones(shape, dtype=np.uint16)


def tree_digest(dt) -> str:
    h = hashlib.sha1()
    node = dt["/bucket"] if "bucket" in dt.children else dt
    ds = node.to_dataset()
    for v in sorted(ds.data_vars):
        h.update(np.asarray(ds[v].values).tobytes())
    return h.hexdigest()[:16]


def run_job(job) -> dict:
    """Trace of a seeded run (exposure / observation) executed twice from different prior states."""
    import dask
    import pyxel
    from pyxel.exposure import Exposure, Readout
    from pyxel.observation import Observation, ParameterValues
    from pyxel.pipelines import DetectionPipeline, ModelFunction
    mode, pseed, mseed, fail, k, shape = (job[x] for x in ("mode", "pseed", "mseed", "fail", "k", "shape"))
    events = []
    key = f"{mode}|pseed={pseed}|mseed={mseed}|{shape}|steps={job['steps']}"
    _ORIG["seed"](2000 + k)
    outside(events, k)

    def build():
        det = px.make_detector("ccd", *shape)
        pipe = DetectionPipeline(photon_collection=[
            ModelFunction(func="harness.seed.rnd_probe", name="r1", arguments={"seed": mseed, "fail": False}),
            ModelFunction(func="harness.seed.rnd_probe", name="r2", arguments={"seed": None, "fail": fail})])
        ro = Readout(times=[float(t + 1) for t in range(job["steps"])])
        if mode == "exposure":
            m = Exposure(readout=ro, pipeline_seed=pseed)
        else:
            m = Observation(parameters=[ParameterValues(key="pipeline.photon_collection.r1.arguments.fail",
                                                        values=[False, False])],
                            readout=ro, pipeline_seed=pseed, with_dask=(mode == "observation_dask"),
                            mode="sequential")
        return m, det, pipe

    with warnings.catch_warnings():
        warnings.simplefilter("ignore")
        for rep in range(2):
            m, det, pipe = build()
            events.append({"e": "begin", "key": key, "tok": state_digest()})
            raised, out = False, ""
            with Watch(events):
                try:
                    with dask.config.set(scheduler="synchronous"):
                        dt = pyxel.run_mode(m, det, pipe, with_inherited_coords=True)
                        if mode == "observation_dask":
                            dt = dt.compute()
                    out = tree_digest(dt)
                except Exception:
                    raised = True
            events.append({"e": "end", "key": key, "tok": state_digest(), "out": out, "raised": raised})
            outside(events, k + rep + 1)
    return {"events": events, "case": {"kind": "run", "job": job}, "fixture_error": ""}
