"""C15: per-pixel facts observed on the real charge-handling models."""

from __future__ import annotations

import warnings

import numpy as np

from harness import px


def _cmos(rows, cols):
    det = px.make_detector("cmos", rows, cols)
    det.set_readout(times=[1.0], start_time=0.0)
    det.readout_properties.time = 1.0
    det.readout_properties.time_step = 1.0
    det.empty()
    return det


def _iv(v):
    v = float(v)
    return int(v) if v.is_integer() else -1


def persist_job(job) -> dict:
    """Exact persistence cases: one real model call per case (species parameters are per call)."""
    from pyxel.models.charge_collection import simple_persistence
    events = []
    with warnings.catch_warnings():
        warnings.simplefilter("ignore")
        for c in job["cases"]:
            k = len(c["trapped"])
            det = _cmos(1, 2)
            det.pixel.array = np.full((1, 2), float(c["pixel"]))
            dens = [q["n"] / 2.0 ** q["e"] for q in c["dens"]]
            taus = [1.0 / (q["n"] / 2.0 ** q["e"]) for q in c["tf"]]       # time step = 1 s
            caps = [float(x) for x in c["caps"]] or None
            from pyxel.data_structure import SimplePersistence
            det.persistence = SimplePersistence(trap_time_constants=taus, trap_densities=dens, geometry=det.pixel.shape)
            det.persistence.trapped_charge_array = np.array([np.full((1, 2), float(t)) for t in c["trapped"]])
            try:
                simple_persistence(det, trap_time_constants=taus, trap_densities=dens, trap_capacities=caps)
                outp = det.pixel.array
                outt = det.persistence.trapped_charge_array
                ev = {"e": "persist", "pixel": c["pixel"], "trapped": c["trapped"], "dens": c["dens"], "tf": c["tf"],
                      "caps": c["caps"], "outpixel": _iv(outp[0, 1]), "outtrapped": [_iv(outt[i][0, 1]) for i in range(k)]}
            except Exception as e:
                ev = {"e": "persist", "pixel": c["pixel"], "trapped": c["trapped"], "dens": c["dens"], "tf": c["tf"],
                      "caps": c["caps"], "outpixel": -7, "outtrapped": [], "why": f"{type(e).__name__}: {e}"[:100]}
            events.append(ev)
    return {"events": events, "case": {"kind": "persist", "job": job}}


def simple_models_job(job) -> dict:
    """collection, conversion (exact and sampled), full well, IPC kernel on small integer frames."""
    import random

    from pyxel.models.charge_collection import simple_collection, simple_full_well, simple_ipc
    from pyxel.models.charge_collection.inter_pixel_capacitance import ipc_kernel
    from pyxel.models.charge_generation import simple_conversion
    rng = random.Random(job["seed"])
    events = []
    with warnings.catch_warnings():
        warnings.simplefilter("ignore")
        shape = (3, 4)
        kind = ["ccd", "cmos"][job["seed"] % 2]
        # collection
        det = px.make_detector(kind, *shape)
        det.set_readout(times=[1.0]); det.empty()
        pix = np.array([[rng.choice([0, 1, 7, 50000, 2 ** 20]) for _ in range(4)] for _ in range(3)], dtype=float)
        chg = np.array([[rng.choice([0, 0, 3, 999, 2 ** 16]) for _ in range(4)] for _ in range(3)], dtype=float)
        det.pixel.array = pix.copy()
        how = job["seed"] % 3          # generated charge held as an array, as positioned packets, or both
        if how in (1, 2):
            geo = det.geometry
            part = chg.copy() if how == 1 else np.floor(chg / 2.0)
            ys, xs = np.mgrid[0:3, 0:4]
            sel = part.ravel() > 0
            z = np.zeros(int(sel.sum()))
            if sel.any():
                det.charge.add_charge(
                    particle_type="e", particles_per_cluster=part.ravel()[sel].astype(float), init_energy=z,
                    init_ver_position=(ys.ravel()[sel] + 0.5) * geo.pixel_vert_size,
                    init_hor_position=(xs.ravel()[sel] + 0.5) * geo.pixel_horz_size,
                    init_z_position=z, init_ver_velocity=z, init_hor_velocity=z, init_z_velocity=z)
            if how == 2:
                det.charge.add_charge_array(chg - part)
        else:
            det.charge.add_charge_array(chg.copy())
        simple_collection(det)
        for y in range(3):
            for x in range(4):
                events.append({"e": "collect", "pixel": int(pix[y, x]), "charge": int(chg[y, x]), "out": _iv(det.pixel.array[y, x])})
        # conversion
        q = rng.choice([{"n": 1, "e": 1}, {"n": 1, "e": 0}, {"n": 3, "e": 2}, {"n": 0, "e": 0}, {"n": 5, "e": 3}])
        ph = np.array([[rng.choice([0, 8, 64, 4096, 2 ** 20]) for _ in range(4)] for _ in range(3)], dtype=float)
        ph_frac = np.array([[rng.choice([0.0, 0.75, 1.6, 2.5, 2.7, 99.6, 64.0]) for _ in range(4)] for _ in range(3)], dtype=float)
        det = px.make_detector(kind, *shape); det.set_readout(times=[1.0]); det.empty()
        det.photon.array = ph.copy()
        simple_conversion(det, quantum_efficiency=q["n"] / 2.0 ** q["e"], binomial_sampling=False)
        for y in range(3):
            for x in range(4):
                events.append({"e": "convert", "ph": int(ph[y, x]), "q": q, "out": _iv(det.charge.array[y, x])})
        det = px.make_detector(kind, *shape); det.set_readout(times=[1.0]); det.empty()
        det.photon.array = ph.copy()
        simple_conversion(det, quantum_efficiency=rng.choice([0.0, 0.3, 0.9, 1.0]), binomial_sampling=True, seed=job["seed"])
        for y in range(3):
            for x in range(4):
                events.append({"e": "sample", "ph": int(ph[y, x]), "out": _iv(det.charge.array[y, x])})
        # photon counts need not be whole numbers: the charge (a whole number) never exceeds them
        for qe_ in (1.0, rng.choice([0.9, 0.99])):
            det = px.make_detector(kind, *shape); det.set_readout(times=[1.0]); det.empty()
            det.photon.array = ph_frac.copy()
            simple_conversion(det, quantum_efficiency=qe_, binomial_sampling=True, seed=job["seed"] + 1)
            for y in range(3):
                for x in range(4):
                    events.append({"e": "sample", "ph": int(np.floor(ph_frac[y, x])), "out": _iv(det.charge.array[y, x])})
        # full well, once and twice
        cap = rng.choice([0, 5, 100, 65000])
        det = px.make_detector(kind, *shape); det.set_readout(times=[1.0]); det.empty()
        xs = np.array([[rng.choice([0, 4, 5, 6, 99, 100, 101, 10 ** 6]) for _ in range(4)] for _ in range(3)], dtype=float)
        det.pixel.array = xs.copy()
        if job["seed"] % 3 == 0:
            det.characteristics.full_well_capacity = float(cap)
            simple_full_well(det)
            once = det.pixel.array.copy()
            simple_full_well(det)
        else:
            simple_full_well(det, fwc=cap)
            once = det.pixel.array.copy()
            simple_full_well(det, fwc=cap)
        for y in range(3):
            for x in range(4):
                events.append({"e": "fullwell", "x": int(xs[y, x]), "cap": cap, "once": _iv(once[y, x]), "twice": _iv(det.pixel.array[y, x])})
        # IPC kernel (numerators over 64) and a uniform frame
        c = rng.randint(1, 12)
        d = rng.randint(0, min(c - 1, 16 - c))
        a = rng.randint(0, c - 1)
        ker = ipc_kernel(coupling=c / 64.0, diagonal_coupling=d / 64.0, anisotropic_coupling=a / 64.0)
        det = px.make_detector("cmos", 6, 5); det.set_readout(times=[1.0]); det.empty()
        u = float(rng.choice([1, 100, 12345]))
        det.pixel.array = np.full((6, 5), u)
        simple_ipc(det, coupling=c / 64.0, diagonal_coupling=d / 64.0, anisotropic_coupling=a / 64.0)
        uniform = bool(np.allclose(det.pixel.array, u, rtol=1e-9, atol=0))
        events.append({"e": "kernel", "c": c, "d": d, "a": a, "D": 64, "k": [_iv(v * 64) for v in ker.ravel()], "uniform": uniform})
    return {"events": events, "case": {"kind": "simple", "job": job}}


def envelope_job(job) -> dict:
    """Real-valued executions: CDM (parallel / serial) and persistence over several steps."""
    import random

    from pyxel.models.charge_collection import simple_persistence
    rng = random.Random(job["seed"])
    events = []
    with warnings.catch_warnings():
        warnings.simplefilter("ignore")
        if job["model"] == "cdm":
            from pyxel.models.charge_transfer import cdm
            det = px.make_detector("ccd", 6, 5)
            det.set_readout(times=[1.0]); det.empty()
            det.environment.temperature = 200.0
            frame = np.array([[rng.choice([0.0, 0.0, 10.0, 500.0, 30000.0]) for _ in range(5)] for _ in range(6)])
            pat = job.get("pattern", job["seed"] % 4)
            if pat == 0:
                frame[:] = 0.0
            if pat == 1:
                frame[:] = 0.0
                frame[2, 3] = 50000.0           # a single hot pixel
            if pat == 2:                        # a bright block on a faint, non-empty background
                frame[:] = rng.choice([5.0, 20.0])
                frame[1:4, 1:3] = rng.choice([30000.0, 60000.0])
            det.pixel.array = frame.copy()
            n = rng.randint(1, 4)
            cdm(det, direction=job["direction"], beta=rng.choice([0.3, 0.37, 0.6]),
                trap_release_times=[rng.choice([3e-3, 5e-2, 1.0]) for _ in range(n)],
                trap_densities=[rng.choice([1.0e9, 2.0e9, 4.0e9] if job.get("dense") else [20.0, 100.0, 350.0]) for _ in range(n)],
                sigma=[rng.choice([1e-15, 1e-10, 1e-20]) for _ in range(n)],
                full_well_capacity=rng.choice([1e4, 1e5]), max_electron_volume=1.62e-10,
                transfer_period=9.4722e-04, charge_injection=False)
            out = det.pixel.array
            before, after = float(frame.sum()), float(out.sum())
            events.append({"e": "envelope", "kind": "cdm", "before": int(np.ceil(before * 1024 * (1 + 1e-12))),
                           "after": int(np.floor(after * 1024)), "minok": bool(out.min() >= 0.0)})
        else:
            det = _cmos(3, 4)
            k = rng.randint(1, 5)
            taus = [rng.choice([0.5, 1.0, 10.0, 100.0]) for _ in range(k)]
            dens = [rng.choice([0.01, 0.1, 0.2, 0.3]) for _ in range(k)]
            caps = [rng.choice([10.0, 1e3, 1e5]) for _ in range(k)] if rng.random() < 0.5 else None
            for step in range(rng.randint(1, 5)):
                det.readout_properties.time_step = rng.choice([0.5, 1.0, 20.0])
                pix = np.array([[rng.choice([0.0, 100.0, 1000.0, 65000.0]) for _ in range(4)] for _ in range(3)])
                det.pixel.array = pix.copy()
                trapped_before = det.persistence.trapped_charge_array.sum() if det.has_persistence() else 0.0
                simple_persistence(det, trap_time_constants=taus, trap_densities=dens, trap_capacities=caps)
                b = float(pix.sum() + trapped_before)
                a = float(det.pixel.array.sum() + det.persistence.trapped_charge_array.sum())
                same = abs(a - b) <= 1e-9 * max(1.0, abs(b))
                events.append({"e": "envelope", "kind": "persistence", "before": 1, "after": 1 if same else 0,
                               "minok": bool(det.persistence.trapped_charge_array.min() >= -1e-9 and det.pixel.array.min() >= -1e-9),
                               "detail": [b, a, k, step]})
    return {"events": events, "case": {"kind": "envelope", "job": job}}
