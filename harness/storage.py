"""C18: save a real detector with a chosen subset of containers initialised, load it back."""

from __future__ import annotations

import os
import shutil
import tempfile
import warnings

import numpy as np

from harness import px, settings

CONTAINERS = ["photon2d", "photon3d", "charge_array", "charge_frame", "pixel", "signal", "image", "phase", "scene", "data"]
EMPTY = -1


def build(det_abs, variant=0):
    kind = det_abs["type"].lower()
    rows, cols = (3, 4) if variant % 2 == 0 else (2, 5)
    # (saving a cluster table converts it to an array, which needs the pixel sizes)
    if det_abs["props"] == "full" or det_abs["data"]["charge_frame"] != EMPTY:
        det = px.make_detector(kind, rows, cols)
    else:
        from pyxel.detectors import (APD, CCD, CMOS, MKID, APDCharacteristics, APDGeometry, CCDGeometry,
                                     Characteristics, CMOSGeometry, Environment, MKIDGeometry)
        cls, geo = {"ccd": (CCD, CCDGeometry), "cmos": (CMOS, CMOSGeometry), "mkid": (MKID, MKIDGeometry),
                    "apd": (APD, APDGeometry)}[kind]
        chars = APDCharacteristics(roic_gain=1.0, avalanche_gain=2.0, pixel_reset_voltage=5.0) if kind == "apd" \
            else Characteristics()
        det = cls(geometry=geo(row=rows, col=cols), environment=Environment(), characteristics=chars)
    shape = (rows, cols)
    d = det_abs["data"]
    rng = np.random.RandomState(variant)
    payload = rng.rand(*shape) if variant % 3 == 2 else np.zeros(shape)     # arbitrary contents on top of the level
    payload = np.round(payload, 3) * 0.0     # keep projection exact; (values vary through levels)
    if d["photon2d"] != EMPTY:
        det.photon.array = px.level_array(d["photon2d"], shape) + payload
    if d["photon3d"] != EMPTY:
        import xarray as xr
        vals = np.stack([px.level_array(d["photon3d"], shape) + w / 64.0 for w in range(3)])
        det.photon.array_3d = xr.DataArray(vals, dims=["wavelength", "y", "x"], coords={"wavelength": [500.0, 510.0, 520.0]})
    if d["charge_array"] != EMPTY and d["charge_frame"] == EMPTY:
        det.charge.add_charge_array(px.level_array(d["charge_array"], shape))
    if d["charge_frame"] != EMPTY:
        n = 2
        z = np.zeros(n)
        det.charge.add_charge(particle_type="e", particles_per_cluster=np.array([float(d["charge_frame"]), 1.0]),
                              init_energy=z + 0.5, init_ver_position=np.array([1.0, 2.0]),
                              init_hor_position=np.array([3.0, 4.0]), init_z_position=z, init_ver_velocity=z,
                              init_hor_velocity=z + 0.25, init_z_velocity=z)
    if d["pixel"] != EMPTY:
        det.pixel.array = px.level_array(d["pixel"], shape)
    if d["signal"] != EMPTY:
        det.signal.array = px.level_array(d["signal"], shape, "float32" if variant % 2 else "float64")
    if d["image"] != EMPTY:
        det.image.array = px.level_array(d["image"], shape, ["uint16", "uint32", "uint64", "uint8"][variant % 4])
    if d["phase"] != EMPTY:
        det.phase.array = px.level_array(d["phase"], shape)
    if d["scene"] != EMPTY:
        det.scene.add_source(px.make_scene_source(d["scene"]))
    if d["data"] != EMPTY:
        px.set_data_token(det, d["data"])
    return det, shape


def project(det, kind):
    out = {}
    ph = det.photon._array
    out["photon2d"] = px.level_of(ph) if isinstance(ph, np.ndarray) else EMPTY
    if ph is not None and not isinstance(ph, np.ndarray):
        vals = np.asarray(ph.values)
        lv = {px.level_of(vals[k] - k / 64.0) for k in range(vals.shape[0])}
        ok = list(ph.dims) == ["wavelength", "y", "x"] and list(ph.coords["wavelength"].values) == [500.0, 510.0, 520.0]
        out["photon3d"] = lv.pop() if len(lv) == 1 and ok else px.NONUNIFORM
    else:
        out["photon3d"] = EMPTY
    fr = det.charge._frame
    if fr is not None and not fr.empty:
        okcols = list(fr.columns) == list(det.charge.columns)
        first = fr.iloc[0]
        good = okcols and len(fr) == 2 and float(first["position_hor"]) == 3.0 and float(first["velocity_hor"]) == 0.25 \
            and float(first["energy"]) == 0.5 and float(fr.iloc[1]["position_ver"]) == 2.0
        out["charge_frame"] = int(first["number"]) if good else px.NONUNIFORM
        out["charge_array"] = EMPTY
    else:
        out["charge_frame"] = EMPTY
        lv = px.level_of(det.charge._array)
        out["charge_array"] = EMPTY if lv == 0 else lv
    pa = det.pixel._array
    out["pixel"] = px.level_of(pa)
    out["signal"] = px.level_of(det.signal._array)
    out["image"] = px.level_of(det.image._array)
    out["phase"] = px.level_of(det.phase._array) if kind == "mkid" else EMPTY
    out["scene"] = px.scene_token(det.scene)
    out["data"] = px.data_token(det._data)
    return out


def props_of(det):
    def plain(o):
        return {k: settings.canon(v) for k, v in sorted(vars(o).items()) if not k.startswith("_numbytes") and k != "_log"}
    return {"geometry": plain(det.geometry), "environment": plain(det.environment),
            "characteristics": plain(det.characteristics)}


def roundtrip_job(job) -> dict:
    from pyxel.detectors import Detector
    det_abs, variant = job["det"], job.get("variant", 0)
    wd = tempfile.mkdtemp(prefix="store_", dir=os.environ.get("VERIF_WORK", px.VERIF + "/.work"))
    events = []
    try:
        with warnings.catch_warnings():
            warnings.simplefilter("ignore")
            det, shape = build(det_abs, variant)
            kind = det_abs["type"].lower()
            # the charge array of a detector holding a frame is derived data
            if det_abs["data"]["charge_frame"] != EMPTY:
                det_abs = dict(det_abs, data=dict(det_abs["data"], charge_array=EMPTY))
            dtypes = {b: str(getattr(det, b)._array.dtype) for b in ("signal", "image") if getattr(det, b)._array is not None}
            f = os.path.join(wd, "detector.asdf")
            det.save(f)
            events.append({"e": "save", "name": "f"})
            before = props_of(det)
            if variant % 2 == 0 and det.pixel._array is not None:      # change the in-memory detector afterwards
                det.pixel.array = px.level_array(9, shape)
                events.append({"e": "modify", "c": "pixel", "v": 9})
            try:
                new = Detector.load(f)
                got = project(new, kind)
                dt2 = {b: str(getattr(new, b)._array.dtype) for b in ("signal", "image") if getattr(new, b)._array is not None}
                events.append({"e": "load", "name": "f", "got": got, "typeok": type(new) is type(det),
                               "propsok": props_of(new) == before and dt2 == dtypes,
                               "why": "" if props_of(new) == before else "properties differ"})
            except Exception as e:
                events.append({"e": "load", "name": "f", "got": {c: px.NONUNIFORM for c in CONTAINERS}, "typeok": False,
                               "propsok": False, "why": f"{type(e).__name__}: {str(e)[:120]}"})
        return {"det": det_abs, "events": events, "case": {"kind": "roundtrip", "job": job}}
    finally:
        shutil.rmtree(wd, ignore_errors=True)
