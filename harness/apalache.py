"""Apalache (symbolic) runs: inductive invariants of small typed modules."""

from __future__ import annotations

import shutil
import subprocess

from harness import tlc


def inductive(ctx, module: str, cinit: str, init: str, indinit: str, inv: str, timeout: int = 600) -> dict:
    """`init => inv` (length 0) and `indinit /\\ Next => inv'` (length 1).  A failure is a failure of the
    design (machinery error), exactly like an invariant violated in a TLC model check."""
    exe = shutil.which("apalache-mc")
    if exe is None:
        raise tlc.MachineryError("apalache-mc is not on PATH")
    out = {}
    for label, i, n in (("base", init, 0), ("step", indinit, 1)):
        d = tlc.fresh_dir(f"apalache_{ctx.prop}_{module}_{label}")
        cmd = [exe, "check", f"--cinit={cinit}", f"--init={i}", f"--inv={inv}", f"--length={n}", f"--out-dir={d}",
               str(tlc.SPEC / f"{module}.tla")]
        try:
            p = subprocess.run(cmd, cwd=str(d), capture_output=True, text=True, timeout=timeout)
        except subprocess.TimeoutExpired as exc:
            raise tlc.MachineryError(f"apalache timed out: {' '.join(cmd)}") from exc
        finally:
            shutil.rmtree(d, ignore_errors=True)
        ok = "EXITCODE: OK" in p.stdout
        out[label] = "ok" if ok else "failed"
        if not ok:
            raise tlc.MachineryError(f"apalache: {module} {label} case failed:\n{p.stdout[-1500:]}")
    ctx.notes.setdefault("apalache", {})[module] = out
    ctx.tick(f"apalache:{module}")
    return out
