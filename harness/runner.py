"""Execute specification configurations against the real code and record traces."""

from __future__ import annotations

import copy
import traceback

from harness import px
from harness.probes import pm


def record_exposure(cfg: dict, construction: str = "python", debug: bool = False,
                    hier: bool = False, readout_how: str = "list", yaml_order: str = "canonical",
                    seed: int = 0, kind: str = "ccd", extra: dict | None = None,
                    rows: int = 2, cols: int = 3, keep: dict | None = None,
                    real: int | None = None) -> dict:
    """Run one exposure of `cfg`; return {cfg, events, meta}.  Never raises for
    errors of the code under test - those become `failed` / `rejected` events."""
    import pyxel
    from pyxel.exposure import Exposure

    pm.SINK.reset()
    events = pm.SINK.events
    meta = {"construction": construction, "debug": debug, "hier": hier, "readout": readout_how,
            "yaml_order": yaml_order, "detector": kind, "real": real}
    if extra:
        meta["extra"] = extra
    try:
        det0 = px.make_detector(kind, rows, cols)
    except Exception:
        return {"cfg": cfg, "events": [{"e": "harness-error", "why": traceback.format_exc()[-400:]}],
                "meta": meta}
    try:
        if construction in ("yaml", "run-file"):
            text = px.yaml_document(cfg, order=yaml_order, seed=seed, extra=extra, rows=rows,
                                    cols=cols, kind=kind)
            conf = pyxel.loads(text)
            mode, det, pipe = conf.running_mode, conf.detector, conf.pipeline
        else:
            pipe = px.build_pipeline(cfg, extra, real=real, shape=(rows, cols))
            det = det0
            mode = Exposure(readout=px.build_readout(cfg, readout_how))
    except Exception as exc:          # refused at construction: before any model executes
        ev = {"e": "rejected"}
        ev.update({"why": repr(exc)[:200]})
        return {"cfg": cfg, "events": [ev], "meta": meta}
    try:
        px.load_prior(det, cfg["prior"], cfg.get("imgdt", "uint16"))
    except Exception:
        return {"cfg": cfg, "events": [{"e": "harness-error", "why": traceback.format_exc()[-400:]}],
                "meta": meta}
    try:
        if construction == "run-file":
            # the command-line entry point: pyxel.run(<file>) (no result object; outputs optional)
            import os
            import shutil
            import tempfile
            d = tempfile.mkdtemp(prefix="runfile_", dir=os.environ.get("VERIF_WORK", px.VERIF + "/.work"))
            try:
                text = px.yaml_document(cfg, order=yaml_order, seed=seed, extra=extra, rows=rows, cols=cols, kind=kind)
                if (extra or {}).get("with_outputs"):
                    text = text.replace("exposure:\n", "exposure:\n  outputs:\n    output_folder: '%s'\n" % os.path.join(d, "out"), 1)
                f = os.path.join(d, "config.yaml")
                with open(f, "w") as fh:
                    fh.write(text)
                pyxel.run(f)
                dt = None
            finally:
                shutil.rmtree(d, ignore_errors=True)
        else:
            dt = pyxel.run_mode(mode, det, pipe, debug=debug, with_inherited_coords=hier)
    except Exception as exc:
        evs = list(events)
        pe = px.project_exception(exc)
        evs.append({"e": "failed", "exc": pe["exc"], "msg": pe["msg"], "g": pe["g"],
                    "name": pe["name"], "noresult": True})
        out = {"cfg": cfg, "events": evs, "meta": meta}
        if keep is not None:
            keep["exc"] = exc
            keep["detector"] = det
        return out
    evs = list(events)
    evs.append({"e": "done", "result": px.project_result(dt, bool((extra or {}).get("photon3d_shift")))}
               if dt is not None else {"e": "done"})
    out = {"cfg": cfg, "events": evs, "meta": meta}
    if debug and dt is not None:
        out["debug_nodes"] = debug_nodes(dt)
        out["debug_changed"] = debug_changed(dt)
    if keep is not None:
        keep["tree"] = dt
        keep["detector"] = det
        keep["pipeline"] = pipe
    return out


def debug_nodes(dt) -> list:
    """[(time index, group index, model name)] of the /intermediate tree."""
    out = []
    if "intermediate" not in dt.children:
        return out
    for tname, tnode in dt["/intermediate"].children.items():
        if not tname.startswith("time_idx_"):
            continue
        k = int(tname.split("_")[-1])
        for gname, gnode in tnode.children.items():
            for mname in gnode.children:
                out.append([k, px.GROUPS.index(gname) + 1 if gname in px.GROUPS else 0, mname])
    return sorted(out)


def debug_times(dt) -> list:
    """[(time index, absolute time in ticks or BADTICK)] announced by the nodes of the /intermediate tree."""
    out = []
    if "intermediate" not in dt.children:
        return out
    for tname, tnode in dt["/intermediate"].children.items():
        if tname.startswith("time_idx_"):
            txt = str(tnode.attrs.get("time", "")).replace("s", "").strip()
            try:
                out.append([int(tname.split("_")[-1]), px.to_ticks(float(txt))])
            except Exception:
                out.append([int(tname.split("_")[-1]), px.BADTICK])
    return sorted(out)


def debug_changed(dt) -> dict:
    """{"k/g/name": {bucket: level}} recorded by the debug capture."""
    out = {}
    if "intermediate" not in dt.children:
        return out
    for tname, tnode in dt["/intermediate"].children.items():
        if not tname.startswith("time_idx_"):
            continue
        k = int(tname.split("_")[-1])
        for gname, gnode in tnode.children.items():
            for mname, mnode in gnode.children.items():
                ds = mnode.to_dataset()
                out[f"{k}/{px.GROUPS.index(gname) + 1}/{mname}"] = {
                    str(v): px.level_of(ds[v].values) for v in ds.data_vars}
    return out


def strip_for_tlc(trace: dict) -> dict:
    """Drop harness-only fields so that the JSON only holds what the trace spec reads."""
    evs = []
    for ev in trace["events"]:
        e = {k: v for k, v in ev.items() if k not in ("seq", "det", "run", "why", "notes")}
        if e["e"] == "done":
            r = dict(e["result"])
            r.pop("layout", None)
            e["result"] = r
        evs.append(e)
    return {"cfg": trace["cfg"], "events": evs}


# --------------------------------------------------------------------------
# sessions: several runs on the same pipeline / detector objects, reconfigured in between
_SESS = 0

def record_session(cfg: dict, ops: list, construction: str = "python", debug: bool = False,
                   hier: bool = False, kind: str = "ccd", extra: dict | None = None,
                   rows: int = 2, cols: int = 3, real: int | None = None) -> dict:
    """`ops`: ["run"] | ["toggle", g, m, how] | ["setargs", g, m, text] | ["resched", times, start, nd]
    | ["peek", what].  g is the 1-based group index, m the 1-based position in the group.
    Returns {cfg (initial), events, meta}; events of all runs with `restart` between them and
    one event per reconfiguration (the vocabulary of PipelineTrace)."""
    import pyxel
    from pyxel.exposure import Exposure

    meta = {"construction": construction, "debug": debug, "hier": hier, "detector": kind,
            "session": ops, "real": real}
    cur = copy.deepcopy(cfg)
    sess_file = None
    try:
        if construction == "yaml":
            conf = pyxel.loads(px.yaml_document(cur, extra=extra, rows=rows, cols=cols, kind=kind))
            mode, det, pipe = conf.running_mode, conf.detector, conf.pipeline
        else:
            det = px.make_detector(kind, rows, cols)
            pipe = px.build_pipeline(cur, extra, real=real, shape=(rows, cols))
            mode = Exposure(readout=px.build_readout(cur, "list"))
            if real is not None:
                # the load-detector models of a session read ONE file, which the session may rewrite
                import os
                import shutil
                global _SESS
                _SESS += 1
                for gname in px.GROUPS:
                    for model in (getattr(pipe, gname).models if getattr(pipe, gname, None) else ()):
                        if "filename" in model.arguments and str(model.arguments["filename"]).endswith(".asdf"):
                            if sess_file is None:
                                sess_file = os.path.join(os.path.dirname(model.arguments["filename"]),
                                                         f"session_{os.getpid()}_{_SESS}.asdf")
                                shutil.copyfile(model.arguments["filename"], sess_file)
                            model.arguments["filename"] = sess_file
        px.load_prior(det, cur["prior"], cur.get("imgdt", "uint16"))
    except Exception:
        return {"cfg": cfg, "events": [{"e": "harness-error", "why": traceback.format_exc()[-400:]}],
                "meta": meta}
    events: list = []
    debug_runs: list = []
    ran = False          # a run was closed and no restart emitted yet

    def restart_if_needed():
        nonlocal ran
        if ran:
            events.append({"e": "restart"})
            ran = False

    for op in ops:
        what = op[0]
        try:
            if what == "run":
                restart_if_needed()
                pm.SINK.reset()
                try:
                    dt = pyxel.run_mode(mode, det, pipe, debug=debug, with_inherited_coords=hier)
                except Exception as exc:
                    events.extend(pm.SINK.events)
                    pe = px.project_exception(exc)
                    events.append({"e": "failed", "exc": pe["exc"], "msg": pe["msg"], "g": pe["g"],
                                   "name": pe["name"], "noresult": True})
                else:
                    events.extend(pm.SINK.events)
                    events.append({"e": "done", "result": px.project_result(dt)})
                    if debug:
                        calls = sorted({(ev["clock"]["count"], ev["g"], ev["name"]) for ev in pm.SINK.events if ev["e"] == "call"})
                        debug_runs.append({"nodes": debug_nodes(dt), "calls": [list(c) for c in calls],
                                           "times": debug_times(dt), "abs": sorted({(ev["clock"]["count"], ev["clock"]["abs"])
                                                                                     for ev in pm.SINK.events if ev["e"] == "call"})})
                ran = True
            elif what == "toggle":
                _, g, m, how = op
                restart_if_needed()
                model = cur["pipe"][g - 1][m - 1]
                group = getattr(pipe, px.GROUPS[g - 1])
                target = group.models[m - 1]
                if how == "getattr":
                    target = getattr(group, model["name"])
                elif how == "get_model":
                    same = [mm for grp in cur["pipe"] for mm in grp if mm["name"] == model["name"]]
                    if len(same) == 1:
                        target = pipe.get_model(model["name"])
                target.enabled = not model["enabled"]
                model["enabled"] = not model["enabled"]
                events.append({"e": "toggle", "g": g, "m": m})
            elif what == "setargs":
                _, g, m, text = op
                restart_if_needed()
                model = cur["pipe"][g - 1][m - 1]
                target = getattr(pipe, px.GROUPS[g - 1]).models[m - 1]
                if set(px.model_user_args(model["args"])) != {"a"} or set(px.model_user_args(text)) != {"a"}:
                    continue         # only the value of an existing argument can be assigned
                target.arguments["a"] = text
                model["args"] = text
                events.append({"e": "setargs", "g": g, "m": m, "args": text})
            elif what == "resched":
                _, times, start, nd = op
                restart_if_needed()
                cur["times"], cur["start"], cur["nd"] = list(times), start, nd
                mode = Exposure(readout=px.build_readout(cur, "list"))
                events.append({"e": "resched", "times": list(times), "start": start, "nd": nd})
            elif what == "rewrite":
                restart_if_needed()
                if sess_file is None:
                    continue
                import os
                import shutil
                src = px.stored_detector_file(op[1], (rows, cols), kind)
                tmp = sess_file + ".new"
                shutil.copyfile(src, tmp)
                os.replace(tmp, sess_file)                 # same name, new content
                cur["stored"] = op[1]
                events.append({"e": "rewrite", "stored": op[1]})
            elif what == "peek":
                # operations that must not have any effect
                if op[1] == "repr":
                    repr(pipe)
                    [repr(getattr(pipe, gname)) for gname in px.GROUPS if getattr(pipe, gname, None)]
                elif op[1] == "iter":
                    [list(getattr(pipe, gname)) for gname in px.GROUPS if getattr(pipe, gname, None)]
                    list(pipe)
                elif op[1] == "describe":
                    list(pipe.describe()) if hasattr(pipe, "describe") else None
                elif op[1] == "dir":
                    [dir(getattr(pipe, gname)) for gname in px.GROUPS if getattr(pipe, gname, None)]
        except Exception:
            events.append({"e": "harness-error", "why": traceback.format_exc()[-400:]})
            break
    if sess_file:
        import os
        try:
            os.unlink(sess_file)
        except OSError:
            pass
    out = {"cfg": cfg, "events": events, "meta": meta}
    if debug:
        out["debug_runs"] = debug_runs
    return out
