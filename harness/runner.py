"""Execute specification configurations against the real code and record traces."""

from __future__ import annotations

import copy
import traceback

from harness import px
from harness.probes import pm


def record_exposure(cfg: dict, construction: str = "python", debug: bool = False,
                    hier: bool = False, readout_how: str = "list", yaml_order: str = "canonical",
                    seed: int = 0, kind: str = "ccd", extra: dict | None = None,
                    rows: int = 2, cols: int = 3, keep: dict | None = None,
                    real: int | None = None) -> dict:
    """Run one exposure of `cfg`; return {cfg, events, meta}.  Never raises for
    errors of the code under test - those become `failed` / `rejected` events."""
    import pyxel
    from pyxel.exposure import Exposure

    pm.SINK.reset()
    events = pm.SINK.events
    meta = {"construction": construction, "debug": debug, "hier": hier, "readout": readout_how,
            "yaml_order": yaml_order, "detector": kind, "real": real}
    try:
        det0 = px.make_detector(kind, rows, cols)
    except Exception:
        return {"cfg": cfg, "events": [{"e": "harness-error", "why": traceback.format_exc()[-400:]}],
                "meta": meta}
    try:
        if construction == "yaml":
            text = px.yaml_document(cfg, order=yaml_order, seed=seed, extra=extra, rows=rows,
                                    cols=cols, kind=kind)
            conf = pyxel.loads(text)
            mode, det, pipe = conf.running_mode, conf.detector, conf.pipeline
        else:
            pipe = px.build_pipeline(cfg, extra, real=real, shape=(rows, cols))
            det = det0
            mode = Exposure(readout=px.build_readout(cfg, readout_how))
    except Exception as exc:          # refused at construction: before any model executes
        ev = {"e": "rejected"}
        ev.update({"why": repr(exc)[:200]})
        return {"cfg": cfg, "events": [ev], "meta": meta}
    try:
        px.load_prior(det, cfg["prior"], cfg.get("imgdt", "uint16"))
    except Exception:
        return {"cfg": cfg, "events": [{"e": "harness-error", "why": traceback.format_exc()[-400:]}],
                "meta": meta}
    try:
        dt = pyxel.run_mode(mode, det, pipe, debug=debug, with_inherited_coords=hier)
    except Exception as exc:
        evs = list(events)
        pe = px.project_exception(exc)
        evs.append({"e": "failed", "exc": pe["exc"], "msg": pe["msg"], "g": pe["g"],
                    "name": pe["name"], "noresult": True})
        out = {"cfg": cfg, "events": evs, "meta": meta}
        if keep is not None:
            keep["exc"] = exc
            keep["detector"] = det
        return out
    evs = list(events)
    evs.append({"e": "done", "result": px.project_result(dt)})
    out = {"cfg": cfg, "events": evs, "meta": meta}
    if debug:
        out["debug_nodes"] = debug_nodes(dt)
        out["debug_changed"] = debug_changed(dt)
    if keep is not None:
        keep["tree"] = dt
        keep["detector"] = det
        keep["pipeline"] = pipe
    return out


def debug_nodes(dt) -> list:
    """[(time index, group index, model name)] of the /intermediate tree."""
    out = []
    if "intermediate" not in dt.children:
        return out
    for tname, tnode in dt["/intermediate"].children.items():
        if not tname.startswith("time_idx_"):
            continue
        k = int(tname.split("_")[-1])
        for gname, gnode in tnode.children.items():
            for mname in gnode.children:
                out.append([k, px.GROUPS.index(gname) + 1 if gname in px.GROUPS else 0, mname])
    return sorted(out)


def debug_changed(dt) -> dict:
    """{"k/g/name": {bucket: level}} recorded by the debug capture."""
    out = {}
    if "intermediate" not in dt.children:
        return out
    for tname, tnode in dt["/intermediate"].children.items():
        if not tname.startswith("time_idx_"):
            continue
        k = int(tname.split("_")[-1])
        for gname, gnode in tnode.children.items():
            for mname, mnode in gnode.children.items():
                ds = mnode.to_dataset()
                out[f"{k}/{px.GROUPS.index(gname) + 1}/{mname}"] = {
                    str(v): px.level_of(ds[v].values) for v in ds.data_vars}
    return out


def strip_for_tlc(trace: dict) -> dict:
    """Drop harness-only fields so that the JSON only holds what the trace spec reads."""
    evs = []
    for ev in trace["events"]:
        e = {k: v for k, v in ev.items() if k not in ("seq", "det", "run", "why", "notes")}
        if e["e"] == "done":
            r = dict(e["result"])
            r.pop("layout", None)
            e["result"] = r
        evs.append(e)
    return {"cfg": trace["cfg"], "events": evs}
