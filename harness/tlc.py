"""Run TLC / SANY under a timeout and parse what the checks need.

Everything that talks to the TLA+ tools lives here:

* ``run_tlc``          - one TLC invocation (model checking or simulation)
* ``check_model``      - model-check an ``MC_*`` instance, return counts and
                         per-action coverage, optionally a JSON export file
* ``validate_traces``  - batch trace validation of recorded traces against a
                         ``*Trace.tla`` module
"""

from __future__ import annotations

import json
import os
import re
import shutil
import subprocess
import time
from dataclasses import dataclass, field
from pathlib import Path

VERIF = Path(__file__).resolve().parent.parent
SPEC = VERIF / "spec"


class MachineryError(RuntimeError):
    """TLC crashed, timed out, vacuous coverage, control accepted ... (exit 2)."""


@dataclass
class TLCResult:
    ok: bool
    generated: int
    distinct: int
    depth: int
    wall_s: float
    output: str
    coverage: dict = field(default_factory=dict)
    violated: list = field(default_factory=list)
    printed: list = field(default_factory=list)
    invariant_tids: dict = field(default_factory=dict)    # trace id -> invariants that failed on it (validation runs)


_RE_STATES = re.compile(
    r"(\d+) states generated, (\d+) distinct states found, (\d+) states left on queue"
)
_RE_DEPTH = re.compile(r"The depth of the complete state graph search is (\d+)")
_RE_COV = re.compile(r"^<(\w+) line (\d+), col \d+ to line \d+, col \d+ of module (\w+)>: (\d+):(\d+)", re.M)
_RE_INV = re.compile(r"Invariant (\w+) is violated|Action property (\w+) is violated|Temporal properties were violated|Assumption .* is false|Deadlock reached")


def workdir() -> Path:
    p = Path(os.environ.get("VERIF_WORK", str(VERIF / ".work")))
    p.mkdir(parents=True, exist_ok=True)
    return p


def fresh_dir(name: str) -> Path:
    d = workdir() / name
    if d.exists():
        shutil.rmtree(d, ignore_errors=True)
    d.mkdir(parents=True)
    return d


def run_tlc(
    module: str,
    cfg: str | None = None,
    *,
    tag: str,
    env: dict | None = None,
    workers: int | str = "auto",
    timeout: int = 600,
    simulate: str | None = None,
    depth: int | None = None,
    coverage: bool = False,
    seed: int | None = None,
    deadlock: bool = True,
    extra: list | None = None,
    dfs_queue: bool = False,
) -> TLCResult:
    """Run TLC on spec/<module>.tla with spec/<cfg> (default <module>.cfg)."""
    meta = fresh_dir(f"tlc_{tag}")
    cfgfile = Path(cfg) if cfg and os.path.isabs(str(cfg)) else SPEC / (cfg or f"{module}.cfg")
    cmd = ["tlc", "-workers", str(workers), "-metadir", str(meta), "-noGenerateSpecTE",
           "-config", str(cfgfile)]
    if simulate:
        cmd += ["-simulate", simulate]
    if depth is not None:
        cmd += ["-depth", str(depth)]
    if coverage:
        cmd += ["-coverage", "1"]
    if seed is not None:
        cmd += ["-seed", str(seed)]
    if not deadlock:
        cmd += ["-deadlock"]
    if extra:
        cmd += list(extra)
    cmd.append(str(SPEC / f"{module}.tla"))
    e = dict(os.environ)
    if env:
        e.update({k: str(v) for k, v in env.items()})
    e.setdefault("JAVA_TOOL_OPTIONS", "-Xmx8g -Xss256m")
    if dfs_queue:
        e["JAVA_TOOL_OPTIONS"] = (e.get("JAVA_TOOL_OPTIONS", "") +
                                  " -Dtlc2.tool.queue.IStateQueue=StateDeque").strip()
    t0 = time.time()
    try:
        proc = subprocess.run(cmd, cwd=str(SPEC), env=e, capture_output=True, text=True,
                              timeout=timeout)
    except subprocess.TimeoutExpired as exc:
        subprocess.run(["pkill", "-f", f"metadir {meta}"], check=False)
        raise MachineryError(f"TLC timed out after {timeout}s: {' '.join(cmd)}") from exc
    finally:
        shutil.rmtree(meta, ignore_errors=True)
    wall = time.time() - t0
    out = proc.stdout + proc.stderr
    gen = dist = 0
    for m in _RE_STATES.finditer(out):
        gen, dist = int(m.group(1)), int(m.group(2))
    depthv = 0
    m = _RE_DEPTH.search(out)
    if m:
        depthv = int(m.group(1))
    cov: dict = {}
    for m in _RE_COV.finditer(out):
        name = m.group(1)
        cov[name] = cov.get(name, 0) + int(m.group(5))
    violated = [next(g for g in m.groups() if g) if any(m.groups()) else m.group(0)
                for m in _RE_INV.finditer(out)]
    printed = [ln for ln in out.splitlines() if ln.startswith("<<") or ln.startswith("\"")]
    finished = "Model checking completed" in out or "Finished in" in out or simulate is not None
    ok = proc.returncode == 0 and not violated and finished
    return TLCResult(ok, gen, dist, depthv, wall, out, cov, violated, printed)


def sany(module: str) -> tuple[bool, str]:
    proc = subprocess.run(["tla-sany", str(SPEC / f"{module}.tla")], cwd=str(SPEC),
                          capture_output=True, text=True, timeout=120)
    out = proc.stdout + proc.stderr
    ok = proc.returncode == 0 and "Semantic errors" not in out and "***Parse Error***" not in out \
        and "Fatal errors" not in out and "Could not find module" not in out
    return ok, out


def check_model(module: str, *, tag: str, cfg: str | None = None, env: dict | None = None,
                timeout: int = 900, required_actions: list | None = None,
                export: Path | None = None, workers: int | str = "auto") -> TLCResult:
    """Model-check an instance; machinery error if TLC fails for a reason other
    than a property violation, or if a required action was never taken."""
    e = dict(env or {})
    if export is not None:
        e["OUT_FILE"] = str(export)
        if export.exists():
            export.unlink()
        workers = 1
    res = run_tlc(module, cfg, tag=tag, env=e, timeout=timeout, coverage=True, workers=workers)
    if not res.ok and not res.violated:
        raise MachineryError(f"TLC failed on {module}:\n{res.output[-3000:]}")
    if res.ok:
        for a in required_actions or []:
            if res.coverage.get(a, 0) == 0:
                raise MachineryError(f"vacuous model check: action {a} of {module} never taken "
                                     f"(coverage {res.coverage})")
        if export is not None and not export.exists():
            raise MachineryError(f"{module}: export file {export} was not written")
    return res


def validate_traces(module: str, traces: list, *, tag: str, cfg: str | None = None,
                    timeout: int = 900, env: dict | None = None) -> tuple[set, dict, TLCResult]:
    """Batch trace validation.

    ``traces`` is a list of JSON-able records (each with whatever header the
    trace module binds, and ``events``).  Returns (accepted 1-based ids,
    {id: longest matched prefix}, TLCResult).  The trace module must follow
    the register protocol: register 1 = set of accepted ids, register 3 =
    function id -> highest event index reached; POSTCONDITION prints
    <<"ACCEPTED", ids>> and <<"PROGRESS", fn>>.
    """
    d = fresh_dir(f"traces_{tag}")
    f = d / "traces.json"
    f.write_text(json.dumps(traces))
    e = dict(env or {})
    e["TRACE_FILE"] = str(f)
    # -continue: an invariant of the specification that fails on ONE recorded trace must not stop the
    # validation of the others; the traces on which an invariant failed are not accepted
    res = run_tlc(module, cfg, tag=tag, env=e, workers=1, timeout=timeout, deadlock=False, extra=["-continue"])
    acc: set = set()
    progress: dict = {}
    m = re.search(r'<<\s*"ACCEPTED",\s*(\{[^}]*\})\s*>>', res.output, re.S)
    if m is None:
        raise MachineryError(f"trace validation produced no verdict ({module}):\n{res.output[-3000:]}")
    acc = {int(x) for x in re.findall(r"\d+", m.group(1))}
    inv_tids: dict = {}
    for blk in re.finditer(r"Invariant (\w+) is violated\.(.*?)(?=Error: Invariant|\Z)", res.output, re.S):
        tids = re.findall(r"/\\ tid = (\d+)", blk.group(2))
        if tids:
            inv_tids.setdefault(int(tids[-1]), []).append(blk.group(1))
    res.invariant_tids = inv_tids
    acc -= set(inv_tids)
    m = re.search(r'<<\s*"PROGRESS",(.*?)\n(?:Model checking completed|Finished|<<\s*")', res.output, re.S)
    if m:
        body = m.group(1)
        pairs = re.findall(r"(\d+) :> (\d+)", body)
        if pairs:
            progress = {int(a): int(b) for a, b in pairs}
        else:  # printed as a tuple <<a, b, c>> when the domain is 1..n
            vals = [int(x) for x in re.findall(r"\d+", body)]
            progress = {k + 1: v for k, v in enumerate(vals)}
    shutil.rmtree(d, ignore_errors=True)
    return acc, progress, res


def diagnose(module: str, traces: list, *, tag: str, cfg: str | None = None,
             timeout: int = 600) -> dict:
    """Second pass over rejected traces with DIAG set: {1-based id: (l, expected)} where
    `expected` is what the specification required at the first unmatched event."""
    d = fresh_dir(f"diag_{tag}")
    f = d / "traces.json"
    f.write_text(json.dumps(traces))
    res = run_tlc(module, cfg, tag=tag + "_diag", env={"TRACE_FILE": str(f), "DIAG": "1"},
                  workers=1, timeout=timeout, deadlock=False)
    out: dict = {}
    for m in re.finditer(r'<<\s*"EXPECTED",\s*(\d+),\s*(\d+),\s*"(.*?)"\s*>>', res.output, re.S):
        tid, l = int(m.group(1)), int(m.group(2))
        text = m.group(3).replace('\\"', '"').replace("\\\\", "\\")
        try:
            exp = json.loads(text)
        except Exception:
            exp = text
        if tid not in out or out[tid][0] < l:
            out[tid] = (l, exp)
    shutil.rmtree(d, ignore_errors=True)
    return out
