"""C10 / C11 (and the calibration parts of C01 C04 C06 C07 C09): realise a PyxelCalibration
configuration with real pyxel objects, evaluate / calibrate, record traces."""

from __future__ import annotations

import math
import os
import shutil
import tempfile
import threading
import warnings

import numpy as np

from harness import px
from harness.probes import pm

SCALE = 10 ** 6
KEY = "pipeline.photon_collection.calprobe.arguments."
FF = {"abs": "pyxel.calibration.fitness.sum_of_abs_residuals",
      "sq": "pyxel.calibration.fitness.sum_of_squared_residuals"}
_TL = threading.local()
CALLS = []          # probe calls: {"thread", "applied", "inp", "seq"}
EVALS = []          # fitness wrapper: {"thread", "x", "seq"}
_LOCK = threading.Lock()
_SEQ = [0]
JOB = [0]           # recordings are tagged with the job that built the probe: threads that a failed
                    # earlier job left running must not write into the recording of the next one


def _next():
    with _LOCK:
        _SEQ[0] += 1
        return _SEQ[0]


def calprobe(detector, _p=None, inp=0, **params):
    """Simulated frame = A * ramp + B  (A: first applied value, B: sum of the others + input argument)."""
    p = _p or {}
    nv = p["nv"]
    applied = []
    for j in range(nv):
        # `collide`: the variables j >= 1 are arguments of other models (aux<j>) that are all called "k0" too
        v = detector._memory[f"aux{j}"] if (p.get("collide") and j >= 1) else params[f"k{j}"]
        applied.append([float(x) for x in np.atleast_1d(np.asarray(v, dtype=float))])
    if p.get("inp_src") == "temperature":      # the input argument travels through a detector field
        inp = detector.environment.temperature - 100.0
    if p.get("job", JOB[0]) == JOB[0]:
        CALLS.append({"thread": threading.get_ident(), "applied": applied, "inp": float(inp), "seq": _next(),
                      "mem": detector._memory.get("cnt", -1)})
    detector._memory["cnt"] = detector._memory.get("cnt", 0) + 1
    flat = [x for a in applied for x in a]
    A, B = flat[0], sum(flat[1:]) + float(inp)
    shape = (detector.geometry.row, detector.geometry.col)
    if p.get("noise"):
        B = B + float(np.random.normal())
    if p.get("delay") and int(abs(A * 1000)) % 3:
        import time
        time.sleep(p["delay"] * (int(abs(A * 1000)) % 3))      # data-dependent: candidates finish out of order
    if p.get("fault") is not None and len(CALLS) > p["fault"]:
        raise pm.EXC[p.get("exc", "ValueError")](p.get("msg", "calibration fault"))
    detector.photon.array = np.zeros(shape)
    detector.pixel.array = A * px.ramp(shape) + B
    detector.signal.array = np.zeros(shape)
    detector.image.array = np.zeros(shape, dtype=np.uint16)


def calaux(detector, k0=None, _p=None):
    """Holds one calibrated variable for calprobe (its argument has the same short name as calprobe's k0)."""
    detector._memory[f"aux{(_p or {})['slot']}"] = k0


def var_key(j: int, collide: bool) -> str:
    return f"pipeline.photon_collection.aux{j}.arguments.k0" if (collide and j >= 1) else f"{KEY}k{j}"


def write_frames(kcfg, workdir):
    tfiles, wfiles = [], []
    ones = True
    for k, p in enumerate(kcfg["pairs"]):
        tf = os.path.join(workdir, f"target_{k}.npy")
        # integer targets stored as integers (what a measured image file holds) when the case says so
        np.save(tf, np.array(p["target"], dtype=np.uint16 if kcfg.get("int_targets") else float))
        tfiles.append(tf)
        w = np.array(p["w"], dtype=float) / kcfg.get("wdiv", 1)
        if not (w == 1).all():
            ones = False
        wf = os.path.join(workdir, f"weight_{k}.npy")
        np.save(wf, w)
        wfiles.append(wf)
    return tfiles, (None if ones else wfiles)


def make_parameters(kcfg, variant=0, collide=False):
    from pyxel.observation import ParameterValues
    params = []
    for j, v in enumerate(kcfg["vars"]):
        lo = [10.0 ** b if v["log"] else float(b) for b in v["lo"]]
        hi = [10.0 ** b if v["log"] else float(b) for b in v["hi"]]
        if v["arity"] == 1 and (variant + j) % 2 == 0:
            values, bounds = "_", (lo[0], hi[0])
        elif len(set(lo)) == 1 and len(set(hi)) == 1 and (variant + j) % 2 == 0:
            values, bounds = ["_"] * v["arity"], (lo[0], hi[0])           # one boundary pair shared by all components
        else:
            values, bounds = ["_"] * v["arity"], [[a, b] for a, b in zip(lo, hi)]   # a pair per component
        if isinstance(values, list) and (variant + j) % 3 == 1:
            values = tuple(values)        # a vector declared with a tuple (any sequence of "_" is a valid declaration)
        params.append(ParameterValues(key=var_key(j, collide), values=values, logarithmic=bool(v["log"]), boundaries=bounds))
    return params


def make_calibration(kcfg, workdir, variant=0, algo=None, extra=None, **kw):
    """(Calibration, detector, pipeline) for a specification configuration."""
    from pyxel.calibration import Algorithm, Calibration
    from pyxel.observation import ParameterValues
    from pyxel.pipelines import DetectionPipeline, FitnessFunction, ModelFunction
    tfiles, wfiles = write_frames(kcfg, workdir)
    nv = len(kcfg["vars"])
    args = {f"k{j}": (1.0 if v["arity"] == 1 else [1.0] * v["arity"]) for j, v in enumerate(kcfg["vars"])}
    args["inp"] = 0
    p = {"nv": nv}
    p.update(extra or {})
    p["job"] = JOB[0]
    args["_p"] = p
    collide = bool(p.get("collide"))
    models = []
    if collide:
        for j, v in enumerate(kcfg["vars"]):
            if j >= 1:
                models.append(ModelFunction(func="harness.calib.calaux", name=f"aux{j}",
                                            arguments={"k0": args.pop(f"k{j}"), "_p": {"slot": j}}))
    models.append(ModelFunction(func="harness.calib.calprobe", name="calprobe", arguments=args))
    pipe = DetectionPipeline(photon_collection=models)
    det = px.make_detector("ccd", kcfg["rows"], kcfg["cols"])
    det._memory["cnt"] = 5
    inputs = None
    if len(kcfg["pairs"]) > 1 or any(pp["inp"] != 0 for pp in kcfg["pairs"]):
        if variant % 2 == 1:
            p["inp_src"] = "temperature"
            inputs = [ParameterValues(key="detector.environment.temperature",
                                      values=[100.0 + pp["inp"] for pp in kcfg["pairs"]])]
        else:
            inputs = [ParameterValues(key=f"{KEY}inp", values=[pp["inp"] for pp in kcfg["pairs"]])]
    wkw = {"weights_from_file": wfiles}
    if kcfg.get("scalar_w"):
        # one declared weight per target (kcfg.pairs[k].w is constant: w / wdiv), not a weight file
        wkw = {"weights": [float(pp["w"][0][0]) / kcfg.get("wdiv", 1) for pp in kcfg["pairs"]]}
    cal = Calibration(
        target_data_path=tfiles, fitness_function=FitnessFunction(func=FF[kcfg["ff"]]),
        algorithm=algo or Algorithm(type="sade", generations=2, population_size=8),
        parameters=make_parameters(kcfg, variant, collide), result_type="pixel",
        result_fit_range=tuple(kcfg["rr"]), target_fit_range=tuple(kcfg["tr"]),
        result_input_arguments=inputs, **wkw, **kw)
    return cal, det, pipe


def make_problem(cal, det, pipe):
    """The optimisation problem exactly as Calibration.run_calibration builds it."""
    from pyxel.calibration.fitting_datatree import ModelFittingDataTree
    from pyxel.calibration.util import FitRange3D, to_fit_range
    from pyxel.pipelines import Processor
    return ModelFittingDataTree(
        processor=Processor(detector=det, pipeline=pipe), variables=cal.parameters, readout=cal.readout,
        simulation_output=cal.result_type, generations=cal.algorithm.generations,
        population_size=cal.algorithm.population_size, fitness_func=cal.fitness_function, file_path=None,
        target_filenames=cal.target_data_path, target_fit_range=to_fit_range(cal.target_fit_range),
        out_fit_range=FitRange3D.from_sequence(cal.result_fit_range), input_arguments=cal.result_input_arguments,
        weights=cal.weights, weights_from_file=cal.weights_from_file, pipeline_seed=cal.pipeline_seed,
        with_inherited_coords=True)


def _intval(v):
    return int(round(v)) if abs(v - round(v)) < 1e-9 else -999999


def eval_job(job) -> dict:
    """Build the problem for kcfg and evaluate the fitness at integer decision vectors."""
    kcfg, xs, variant = job["kcfg"], job["xs"], job.get("variant", 0)
    JOB[0] += 1
    wd = tempfile.mkdtemp(prefix="calib_", dir=os.environ.get("VERIF_WORK", px.VERIF + "/.work"))
    events = []
    try:
        with warnings.catch_warnings():
            warnings.simplefilter("ignore")
            del CALLS[:]
            try:
                cal, det, pipe = make_calibration(kcfg, wd, variant, extra=job.get("extra"))
                prob = make_problem(cal, det, pipe)
                events.append({"e": "build", "out": "ok"})
            except Exception as e:
                events.append({"e": "build", "out": "rejected", "why": f"{type(e).__name__}: {str(e)[:100]}",
                               "ncalls": len(CALLS)})
                return {"kind": "eval", "kcfg": kcfg, "events": events, "case": {"kind": "eval", "job": job}}
            lb, ub = prob.get_bounds()
            meta = {"lower": [float(v) for v in lb], "upper": [float(v) for v in ub]}
            for x in xs:
                del CALLS[:]
                try:
                    f = prob.fitness(np.array(x, dtype=float))
                    conv = prob.convert_to_parameters(np.array(x, dtype=float))
                except Exception as e:
                    events.append({"e": "eval", "x": x, "applied": [], "fitness": -1,
                                   "why": f"{type(e).__name__}: {str(e)[:160]}"})
                    break
                calls = list(CALLS)
                applied = [[_intval(v) for v in a] for a in calls[0]["applied"]] if calls else []
                same = all(c["applied"] == calls[0]["applied"] for c in calls)
                events.append({"e": "eval", "x": x, "applied": applied if same else [], "fitness": _intval(float(f[0])),
                               "ncalls": len(calls), "inps": [c["inp"] for c in calls],
                               "converted": [_intval(float(v)) for v in conv]})
            return {"kind": "eval", "kcfg": kcfg, "events": events, "meta": meta,
                    "case": {"kind": "eval", "job": job}}
    finally:
        shutil.rmtree(wd, ignore_errors=True)


def figure_of_merit(ff, sim, target, w):
    d = target - sim
    return float(np.nansum(w * np.abs(d))) if ff == "abs" else float(np.nansum(w * d * d))


def scaled(v, up=None):
    s = float(v) * SCALE
    if up is None:
        return int(round(s))
    return int(math.ceil(s - 1e-6)) if up else int(math.floor(s + 1e-6))


def calib_job(job) -> dict:
    """Run a complete calibration; record every candidate and every reported champion / best individual."""
    import dask
    import pyxel
    from pyxel.calibration import Algorithm
    from pyxel.calibration.fitting_datatree import ModelFittingDataTree
    kcfg = job["kcfg"]
    wd = tempfile.mkdtemp(prefix="calib_", dir=os.environ.get("VERIF_WORK", px.VERIF + "/.work"))
    events = []
    orig = ModelFittingDataTree.fitness

    JOB[0] += 1
    myjob = JOB[0]

    def wrapped(self, x):
        if myjob == JOB[0]:
            EVALS.append({"thread": threading.get_ident(), "x": [float(v) for v in x], "seq": _next()})
        return orig(self, x)

    try:
        with warnings.catch_warnings():
            warnings.simplefilter("ignore")
            del CALLS[:], EVALS[:]
            if job.get("algo") == "nlopt":     # a local optimiser: the optimised individual may replace any other one
                algo = Algorithm(type="nlopt", population_size=job.get("pop", 8), nlopt_selection=job.get("sel", "worst"),
                                 replacement=job.get("rep", "best"), maxeval=job.get("maxeval", 6))
            else:
                algo = Algorithm(type=job.get("algo", "sade"), generations=job.get("generations", 2),
                                 population_size=job.get("pop", 8))
            cal, det, pipe = make_calibration(
                kcfg, wd, job.get("variant", 0), algo=algo, extra=job.get("extra"),
                pygmo_seed=job.get("pygmo_seed", 11), pipeline_seed=job.get("pipeline_seed"),
                num_islands=job.get("islands", 2), num_evolutions=job.get("evolutions", 2),
                num_best_decisions=job.get("best", 2), topology=job.get("topology", "unconnected"))
            # `repeat` > 1: the same calibration, detector and pipeline objects are run again (a session)
            for rep in range(job.get("repeat", 1)):
                if rep:
                    events.append({"e": "rerun"})
                    del CALLS[:], EVALS[:]
                before = {"mem": det._memory.get("cnt"), "args": repr(dict(pipe.photon_collection.models[0].arguments))}
                ModelFittingDataTree.fitness = wrapped
                failed = None
                dkw = {}
                if job.get("scheduler"):
                    dkw["scheduler"] = job["scheduler"]
                    if job.get("workers"):
                        dkw["num_workers"] = job["workers"]
                try:
                    with dask.config.set(**dkw):
                        dt = pyxel.run_mode(cal, det, pipe)
                except Exception as e:
                    failed = e
                finally:
                    ModelFittingDataTree.fitness = orig
                after = {"mem": det._memory.get("cnt"), "args": repr(dict(pipe.photon_collection.models[0].arguments))}
                events.append({"e": "build", "out": "ok" if (failed is None or EVALS) else "rejected"})
                npairs = len(kcfg["pairs"])
                # candidates: pair each fitness() call with the probe calls of the same thread that follow it
                calls_by_thread = {}
                for c in CALLS:
                    calls_by_thread.setdefault(c["thread"], []).append(c)
                cands = {}
                evs = sorted(EVALS, key=lambda e: e["seq"])
                for k, ev in enumerate(evs):
                    mine = [c for c in calls_by_thread.get(ev["thread"], []) if c["seq"] > ev["seq"]][:npairs]
                    nxt = [e2["seq"] for e2 in evs if e2["thread"] == ev["thread"] and e2["seq"] > ev["seq"]]
                    if nxt:
                        mine = [c for c in mine if c["seq"] < nxt[0]]
                    if not mine:
                        continue
                    params = [v for a in mine[0]["applied"] for v in a]
                    conv = all((abs(p - 10.0 ** x) <= 8 * np.spacing(10.0 ** x)) if kcfg["vars"][vj]["log"] else (p == x)
                               for (p, x, vj) in zip(params, ev["x"], var_index(kcfg)))
                    key = tuple(ev["x"])
                    if key not in cands:
                        cands[key] = True
                        events.append({"e": "cand", "x": [scaled(v) for v in ev["x"]], "params": [scaled(v) for v in params],
                                       "applied": [[scaled(v) for v in a] for a in mine[0]["applied"]], "convok": bool(conv),
                                       "inps": [c["inp"] for c in mine], "mems": [c["mem"] for c in mine]})
                meta = {"ncands": len(cands), "nevals": len(evs), "before": before, "after": after,
                        "user_unchanged": before == after}
                if failed is not None:
                    pe = px.project_exception(failed)
                    events.append({"e": "failed", "exc": pe["exc"], "msg": pe["msg"], "g": pe["g"], "name": pe["name"]})
                    break
                # reported champions and best individuals
                champ = dt["/champion"].to_dataset()
                for isl in range(champ.sizes["island"]):
                    for evo in range(champ.sizes["evolution"]):
                        x = [float(v) for v in champ["decision"].isel(island=isl, evolution=evo).values]
                        prm = [float(v) for v in champ["parameters"].isel(island=isl, evolution=evo).values]
                        fit = float(champ["fitness"].isel(island=isl, evolution=evo).values)
                        events.append(report_event(kcfg, "champion", isl, evo, x, prm, fit, wd))
                if "best" in dt.children:
                    best = dt["/best"].to_dataset()
                    for isl in range(best.sizes["island"]):
                        for evo in range(best.sizes["evolution"]):
                            for ind in range(best.sizes["individual"]):
                                x = [float(v) for v in best["decision"].isel(island=isl, evolution=evo, individual=ind).values]
                                prm = [float(v) for v in best["parameters"].isel(island=isl, evolution=evo, individual=ind).values]
                                fit = float(best["fitness"].isel(island=isl, evolution=evo, individual=ind).values)
                                events.append(report_event(kcfg, "best", isl, evo, x, prm, fit, wd))
                # the returned simulated data of the last champions
                with dask.config.set(**dkw):       # (lazy data: computed under the scheduler of this job)
                    meta["simulated"] = check_simulated(dt, kcfg, champ)
                meta["champions"] = [[float(v) for v in champ["fitness"].isel(island=i).values] for i in range(champ.sizes["island"])]
                meta["champion_x"] = [[float(v) for v in champ["decision"].isel(island=i, evolution=-1).values]
                                      for i in range(champ.sizes["island"])]
                events.append({"e": "done"})
            return {"kind": "calib", "kcfg": scaled_cfg(kcfg), "events": events, "meta": meta,
                    "case": {"kind": "calib", "job": job}}
    finally:
        shutil.rmtree(wd, ignore_errors=True)


def var_index(kcfg):
    out = []
    for j, v in enumerate(kcfg["vars"]):
        out += [j] * v["arity"]
    return out


def scaled_cfg(kcfg):
    c = dict(kcfg)
    vs = []
    for v in kcfg["vars"]:
        v = dict(v)
        v["slo"] = [scaled(b, up=False) for b in v["lo"]]
        v["shi"] = [scaled(b, up=True) for b in v["hi"]]
        v["plo"] = [scaled(10.0 ** b if v["log"] else b, up=False) - 1 for b in v["lo"]]
        v["phi"] = [scaled(10.0 ** b if v["log"] else b, up=True) + 1 for b in v["hi"]]
        vs.append(v)
    c["vars"] = vs
    return c


def resimulate(kcfg, params):
    """Independent re-simulation: a plain exposure per target/input pair with the parameters set
    explicitly, and the figure of merit recomputed with numpy."""
    import pyxel
    from pyxel.exposure import Exposure, Readout
    from pyxel.pipelines import DetectionPipeline, ModelFunction
    total = 0.0
    frames = []
    pos = 0
    args = {}
    for j, v in enumerate(kcfg["vars"]):
        vals = params[pos:pos + v["arity"]]
        pos += v["arity"]
        args[f"k{j}"] = vals[0] if v["arity"] == 1 else list(vals)
    y0, y1, x0, x1 = kcfg["tr"]
    ry0, ry1, rx0, rx1 = kcfg["rr"]
    for p in kcfg["pairs"]:
        a = dict(args, inp=p["inp"], _p={"nv": len(kcfg["vars"])})   # (always through the model argument here)
        pipe = DetectionPipeline(photon_collection=[ModelFunction(func="harness.calib.calprobe", name="calprobe", arguments=a)])
        det = px.make_detector("ccd", kcfg["rows"], kcfg["cols"])
        dt = pyxel.run_mode(Exposure(readout=Readout()), det, pipe)
        sim = np.asarray(dt["pixel"].isel(time=0).values, dtype=float)
        frames.append(sim)
        total += figure_of_merit(kcfg["ff"], sim[ry0:ry1, rx0:rx1], np.array(p["target"], float)[y0:y1, x0:x1],
                                 np.array(p["w"], float)[y0:y1, x0:x1] / kcfg.get("wdiv", 1))
    return total, frames


def report_event(kcfg, kind, isl, evo, x, prm, fit, wd):
    conv = all((abs(p - 10.0 ** xx) <= 8 * np.spacing(10.0 ** xx)) if kcfg["vars"][vj]["log"] else (p == xx)
               for (p, xx, vj) in zip(prm, x, var_index(kcfg)))
    n = len(CALLS)
    total, _ = resimulate(kcfg, prm)
    del CALLS[n:]
    ok = bool(np.isclose(total, fit, rtol=1e-9, atol=1e-9))
    return {"e": "champ", "kind": kind, "island": isl + 1, "evolution": evo, "x": [scaled(v) for v in x],
            "params": [scaled(v) for v in prm], "fitness": scaled(fit), "convok": bool(conv), "resim": ok,
            "refit": total, "fit": fit}


def check_simulated(dt, kcfg, champ):
    """The returned /simulated/pixel of the last champions equals a re-simulation."""
    try:
        sim = dt["/simulated/pixel"].compute()
    except Exception as e:
        return f"cannot compute: {type(e).__name__}: {str(e)[:80]}"
    ry0, ry1, rx0, rx1 = kcfg["rr"]
    for isl in range(champ.sizes["island"]):
        prm = [float(v) for v in champ["parameters"].isel(island=isl, evolution=-1).values]
        n = len(CALLS)
        _, frames = resimulate(kcfg, prm)
        del CALLS[n:]
        for k, fr in enumerate(frames):
            got = np.asarray(sim.isel(island=isl, processor=k, readout_time=0).values, dtype=float)
            if got.shape != fr[ry0:ry1, rx0:rx1].shape or not np.allclose(got, fr[ry0:ry1, rx0:rx1], rtol=1e-9):
                return f"island {isl} pair {k}: returned simulated data differ from a re-simulation"
    return "ok"
