"""C19 - output files are complete, correctly attributed and never clobbered."""

from __future__ import annotations

import json

from harness import check, outputs, tlc
from harness.drivers import _pipeline as P

SAVES = [[{"detector.photon.array": ["npy"]}],
         [{"detector.photon.array": ["npy", "fits"]}, {"detector.signal.array": ["npy"]}],
         [{"detector.signal.array": ["fits"]}, {"detector.photon.array": ["fits"]}],
         [{"detector.image.array": ["fits", "npy", "jpg"]}],
         # the same bucket named in several entries: every (bucket, format) is requested once
         [{"detector.photon.array": ["fits"]}, {"detector.signal.array": ["npy"]}, {"detector.photon.array": ["npy"]}],
         [{"detector.signal.array": ["npy"]}, {"detector.signal.array": ["fits"]}],
         # picture formats listed BEFORE lossless ones
         [{"detector.image.array": ["jpg", "fits", "npy"]}],
         [{"detector.image.array": ["jpg", "npy"]}, {"detector.photon.array": ["npy"]}]]
# exposure mode only (the probe pipeline of the observation cases generates no charge): the charge bucket, whose
# content is partly held as positioned clusters, and the pixel bucket
CHARGE_SAVE = [{"detector.charge.array": ["npy", "fits"]}, {"detector.pixel.array": ["npy"]}]


def strip(t):
    return {"pre": t["pre"], "events": [{k: v for k, v in e.items() if k != "why"} for e in t["events"]]}


def corrupt(tr):
    for ev in tr["events"]:
        if ev["e"] == "own":
            ev["n"] += 1
            return tr
        if ev["e"] == "reported":
            ev["same"] = False
            return tr
    return None


def validate(ctx, traces, label):
    for t in traces:
        bad = [e for e in t["events"] if e["e"] == "harness-error"]
        if bad:
            raise tlc.MachineryError(f"harness error: {bad[0]['why']}")
    rejected = ctx.validate("OutputsTrace", [strip(t) for t in traces], label=label, corrupt=corrupt)
    if not rejected:
        return
    idx = [k for k, _ in rejected][:40]
    diag = tlc.diagnose("OutputsTrace", [strip(traces[k]) for k in idx], tag=f"C19_{label}")
    seen = set()
    for pos, k in enumerate(idx, start=1):
        l, exp = diag.get(pos, (dict(rejected)[k], {}))
        evs = traces[k]["events"]
        ev = evs[l - 1] if 1 <= l <= len(evs) else {"e": "?"}
        job = traces[k]["case"].get("job", {})
        info = {"event": ev["e"], "mode": job.get("mode"), "dask": bool((job.get("ocfg") or {}).get("dask"))}
        if ev["e"] in ("mkdir", "own", "clock"):
            sig, text = "directory.protocol", f"system call {ev} does not follow the directory protocol; specification state {exp}"
        elif ev["e"] == "ownname":
            sig, text = "directory.fresh", f"simulation {ev.get('p')} writes into {ev.get('name')} which existed before or belongs to another simulation"
        elif ev["e"] == "reported":
            sig = "file.attribution"
            text = (f"reported file {ev.get('path')} for run {ev.get('run')} bucket {ev.get('bucket')} format {ev.get('fmt')}: "
                    f"exists={ev.get('exists')} in own directory={ev.get('indir')} holds that run's data={ev.get('same')}")
        elif ev["e"] == "prefile":
            sig, text = "file.clobbered", f"pre-existing file {ev.get('path')} was changed"
        elif ev["e"] == "end":
            sig, text = "file.missing", f"requested files without a reported file: {(exp or {}).get('missing')}"
        else:
            sig, text = "trace", f"{ev} / {exp}"
        if sig in seen:
            continue
        seen.add(sig)
        ctx.violation(sig, text, traces[k]["case"], info)


def run(ctx):
    _, cases = ctx.model_check("MC_Outputs", f"MC_Outputs_{ctx.tier}.cfg", export=True, timeout=1500,
                               required_actions=["ReadClock", "TryMkdir", "Write", "Tick", "Finish"],
                               note="every interleaving of clock reads and atomic mkdir attempts of concurrent starts, "
                                    "pre-existing colliding directories, clock advancing or not; liveness under weak fairness")
    if ctx.tier == "thorough":
        # (three concurrent starts exceed 7 x 10^7 states with the schedule history: two starts, once with two
        # files and once with a clock that advances twice)
        _, more = ctx.model_check("MC_Outputs", "MC_Outputs_thorough2.cfg", export=True, timeout=1500,
                                  required_actions=["ReadClock", "TryMkdir", "Write", "Tick", "Finish"],
                                  note="two concurrent starts, the clock advancing up to twice")
        cases = cases + more
    ctx.cov["exhaustive"] = True
    cases = cases[: ctx.pick(200, 2500)]
    traces = []
    for c in cases:                                            # threads with gates: in this process
        t = outputs.schedule_job(c)
        if t["stuck"]:
            # the real threads could not follow a schedule of the specification: the code performs
            # other system calls than "read the clock once, then mkdir until it succeeds"
            ctx.violation("directory.protocol", f"create_output_directory cannot follow the schedule {c['sched']}: "
                          f"{t['stuck']}; system calls observed: {t['events']}", t["case"], {"event": "stuck"})
            break
        traces.append(t)
    ctx.cov["replayed_cases"] += len(traces)
    if traces:
        ctx.sample({"schedule": traces[-1]["case"]["case"]["sched"], "events": traces[-1]["events"]})
    validate(ctx, traces, "schedules")
    races = [outputs.race_job({"n": n, "pre": pre}) for n, pre in ctx.pick([(16, 0), (12, 2)], [(16, 0), (16, 2), (16, 3), (8, 1)] * 4)]
    ctx.cov["recorded_random"] += len(races)
    validate(ctx, races, "races")
    # attribution of reported files
    rng = ctx.rng
    jobs = []
    for k in range(ctx.pick(24, 160)):
        save = SAVES[k % 8]
        mode = ["exposure", "observation", "observation_dask"][k % 3]
        if mode == "exposure":
            cfg = P.random_cfg(rng, max_models=2, max_steps=3, kinds=("set", "add"), p_img=1.0, prior_p=0.0)
            cfg["pipe"][1].insert(0, {"name": "ph", "enabled": True, "args": "a", "kind": "set", "b": "photon", "base": 5, "mask": -1})
            cfg["pipe"][6].append({"name": "sg", "enabled": True, "args": "a", "kind": "set", "b": "signal", "base": 9, "mask": -1})
            jobs.append({"mode": mode, "cfg": cfg, "save": SAVES[k % 8], "repeat": 2 + (k % 2), "reuse": k % 2 == 0})
            if k % 2 == 0:
                import copy
                c2 = copy.deepcopy(cfg)
                c2["pipe"][3] = [{"name": "cha", "enabled": True, "args": "a", "kind": "add", "b": "charge", "base": 7, "mask": -1},
                                 {"name": "chp", "enabled": True, "args": "a", "kind": "padd", "b": "charge", "base": 3, "mask": -1}]
                c2["pipe"][4] = [{"name": "pxa", "enabled": True, "args": "a", "kind": "add", "b": "pixel", "base": 11, "mask": -1}]
                c2["times"] = c2["times"][:2]
                jobs.append({"mode": mode, "cfg": c2, "save": CHARGE_SAVE, "repeat": 1})
        else:
            np_ = rng.randint(1, 2)
            params = [{"vals": rng.sample([1, 2, 3], rng.randint(2, 3)), "enabled": True,
                       "sink": ["photon", "signal"][j % 2]} for j in range(np_)]
            md = rng.choice(["product", "custom"])
            table = [[rng.randint(1, 3) for _ in range(np_)] for _ in range(3)] if md == "custom" else []
            dask = mode == "observation_dask"
            jobs.append({"mode": mode, "ocfg": {"mode": md, "params": params, "table": table, "dask": dask, "fault": []},
                         "save": save, "variant": k, "scheduler": rng.choice(["synchronous", "threads"]) if dask else None,
                         "workers": 4 if dask else None, "delay": 1.0 if dask else 0.0, "repeat": 2 if k % 2 else 1})
    traces = check.pmap(outputs.files_job, jobs, chunksize=1)
    ctx.cov["recorded_random"] += len(traces)
    ctx.sample({"job_mode": jobs[1]["mode"], "events": traces[1]["events"][:6]})
    validate(ctx, traces, "files")
    numbering(ctx)
    ctx.assumptions += ["datetime.now and Path.mkdir are wrapped in the harness process to force TLC's schedules on real threads",
                        "lossless formats (npy, fits) are read back and compared bit for bit (dtype kind and width; FITS is "
                        "big-endian); for jpg only existence is checked"]


PRES = [[], [1], [2], [9], [1, 2, 3], [8, 9], [10], [9, 10], [99], [3, 11], [1, 10, 100]]


def _corrupt_nb(tr):
    if tr["events"] and tr["events"][-1]["contents"]:
        tr["events"][-1]["contents"][-1] += 1
        return tr
    return None


def validate_nb(ctx, traces, label):
    stripped = [{"pre": t["pre"], "events": [{k: v for k, v in ev.items() if k != "exc"} for ev in t["events"]]} for t in traces]
    rejected = ctx.validate("NumberingTrace", stripped, label=label, corrupt=_corrupt_nb)
    seen = set()
    for k, l in rejected:
        job = traces[k]["case"]["job"]
        evs = traces[k]["events"]
        ev = evs[min(l, len(evs)) - 1] if evs else {}
        if ev.get("out") == "harness-error":
            raise tlc.MachineryError(f"numbering job failed: {ev.get('exc')}")
        if job["how"] in seen:
            continue
        seen.add(job["how"])
        ctx.violation("files.numbering", f"automatically numbered saves ({job['how']}) into a folder holding the numbers "
                      f"{job['pre']}: save {min(l, len(evs))} of {job['nsaves']} -> {ev.get('out')} {ev.get('exc', '')} number "
                      f"{ev.get('n')}; the folder then holds {ev.get('listing')} with contents {ev.get('contents')} "
                      f"(0 = was there before, k = written by save k)", traces[k]["case"], {"how": job["how"]})


def numbering(ctx):
    """PyxelNumbering: automatically numbered files (one per readout in the legacy entry points)."""
    res = tlc.check_model("MC_Numbering", tag="C19_numbering", cfg="MC_Numbering.cfg")
    if res.violated:
        raise tlc.MachineryError(f"MC_Numbering violates {res.violated}")
    ctx.add_model_check("MC_Numbering.cfg", res, "11 folder contents x up to 13 saves")
    jobs = [{"how": how, "pre": pre, "nsaves": n} for pre in PRES for how in ("npy", "txt") for n in (3, 13)]
    jobs += [{"how": "exposure", "pre": [], "nsaves": n} for n in (1, 2, 9, 10, 11, 12, ctx.pick(21, 101))]
    traces = check.pmap(outputs.numbering_job, jobs, chunksize=2)
    ctx.cov["replayed_cases"] += len(traces)
    ctx.notes["numbering_histories"] = len(traces)
    validate_nb(ctx, traces, "numbering")


def replay(ctx, payload):
    case = payload["case"]
    if case["kind"] == "numbering":
        tr = outputs.numbering_job(case["job"])
        print(json.dumps(tr["events"])[:3000])
        validate_nb(ctx, [tr], "replay")
        return ctx.finish()
    if case["kind"] == "sched":
        tr = outputs.schedule_job(case["case"])
    elif case["kind"] == "race":
        tr = outputs.race_job(case["job"])
    else:
        tr = outputs.files_job(case["job"])
    print(json.dumps(tr["events"], indent=0)[:3000])
    validate(ctx, [tr], "replay")
    return ctx.finish()
