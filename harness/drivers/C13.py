"""C13 - data buckets only ever hold arrays of the detector's shape and unit type."""

from __future__ import annotations

import json

from harness import check, containers, tlc

DTYPES = ["float16", "float32", "float64", "uint8", "uint16", "uint32", "uint64", "int32", "int64", "bool",
          "complex128", "object"]
SHAPES = ["ok", "ok", "ok", "rows", "cols", "transposed", "oned", "threed"]
CARRIERS = ["ndarray", "ndarray", "ndarray", "list", "cube", "scalar", "dataarray2d", "none"]
VALS = ["pos", "neg", "nan", "nan+neg", "huge", "zero"]


def strip(tr):
    return {"kind": tr["kind"], "events": [{k: v for k, v in ev.items() if k in ("op", "arg", "out", "after", "ret")}
                                           for ev in tr["events"]]}


def corrupt(tr):
    for ev in tr["events"]:
        if ev["out"] == "ok" and not ev["after"]["empty"]:
            ev["after"]["dt"] = "int8"
            return tr
    return None


def classify(tr, l, exp):
    ev = tr["events"][l - 1] if 1 <= l <= len(tr["events"]) else None
    if ev is None:
        return "trace.incomplete", "incomplete", {}
    before = exp.get("cont") if isinstance(exp, dict) else None
    info = {"kind": tr["kind"], "op": ev["op"], "was_empty": bool(before and before.get("empty")),
            "carrier": ev["arg"].get("carrier"), "arg_shape": ev["arg"].get("shape"), "arg_dtype": ev["arg"].get("dtype")}
    if ev["op"] == "eq":
        info["other"] = ev["arg"]["carrier"]
        return "eq", (f"{tr['kind']} container in state {before} compared with a '{ev['arg']['carrier']}' container gives "
                      f"{ev['ret']} (1 equal, 0 different, -1 raised {ev.get('exc')}, 2 the two orders disagree)"), info
    if ev["op"] == "read":
        return "read", f"reading a {tr['kind']} container in state {before}: outcome {ev['out']} value {ev['ret']} ({ev.get('exc')})", info
    return "assign", (f"{ev['op']} on a {tr['kind']} container in state {before} with argument {ev['arg']}: outcome "
                      f"{ev['out']} ({ev.get('exc')}), container afterwards {ev['after']}"), info


def validate(ctx, traces, label):
    stripped = [strip(t) for t in traces]
    rejected = ctx.validate("ContainersTrace", stripped, label=label, corrupt=corrupt)
    for t in traces:   # explanatory error on reading an empty container
        for ev in t["events"]:
            if ev.get("explanatory") is False:
                ctx.violation("read.unexplained", f"reading an empty {t['kind']} container raised {ev['exc']}",
                              {"kind": "history", "history": t["case"]}, {"kind": t["kind"]})
    if not rejected:
        return
    idx = [k for k, _ in rejected][:80]
    diag = tlc.diagnose("ContainersTrace", [stripped[k] for k in idx], tag=f"C13_{label}")
    seen = set()
    for pos, k in enumerate(idx, start=1):
        l, exp = diag.get(pos, (dict(rejected)[k], None))
        sig, text, info = classify(traces[k], l, exp or {})
        key = (sig, json.dumps(info, sort_keys=True))
        if key in seen:
            continue
        seen.add(key)
        ctx.violation(sig, text, {"kind": "history", "history": traces[k]["case"]}, info)


def random_history(rng, n):
    kind = rng.choice(["photon", "pixel", "signal", "image", "phase"])
    ops = []
    for _ in range(n):
        op = rng.choice(["set", "set", "update", "iadd", "iadd", "reset", "read", "eq"])
        if kind == "photon" and op == "update":
            op = "set"
        arg = {"carrier": "none", "shape": "ok", "dtype": "", "neg": False, "id": 0}
        if op in ("set", "update", "iadd"):
            car = rng.choice(CARRIERS)
            if car == "none" and op != "update":
                car = "ndarray"
            vals = rng.choice(VALS)
            dt = rng.choice(DTYPES + ["float64", "float32", "uint16"])
            shp = rng.choice(SHAPES)
            if car == "cube":
                shp = rng.choice(["ok", "ok", "rows"])
                dt = rng.choice(["float64", "float32", "int64"])
            if car == "scalar":
                shp, dt = "scalar", "float64"
            if car == "list":
                dt = rng.choice(["float64", "int64"])
            neg = vals in ("neg", "nan+neg") and np_kind(dt) in "fi"
            arg = {"carrier": car, "shape": shp, "dtype": dt if car != "none" else "", "neg": bool(neg),
                   "id": rng.randint(1, 9), "vals": vals}
        elif op == "eq":
            arg = dict(arg, carrier=rng.choice(["copy", "empty", "diff", "otherkind", "othershape"]))
        ops.append({"op": op, "arg": arg})
    return {"kind": kind, "ops": ops, "variant": rng.randint(0, 7)}


def np_kind(dt):
    import numpy as np
    return np.dtype(dt).kind if dt else "f"


def run(ctx):
    res, cases = ctx.model_check("MC_Containers", f"MC_Containers_{ctx.tier}.cfg", export=True,
                                 note="every operation history of length MAXLEN over 12 arguments x "
                                      "{set, update, +=, empty, read, ==} for the five container kinds")
    ctx.cov["exhaustive"] = True
    cases = [c for c in cases if not (c["kind"] == "photon" and any(o["op"] == "update" for o in c["ops"]))]
    for k, c in enumerate(cases):
        c["variant"] = k
    traces = check.pmap(containers.run_history, cases, chunksize=200)
    ctx.cov["replayed_cases"] += len(traces)
    ctx.sample({"history": cases[10], "events": traces[10]["events"]})
    validate(ctx, traces, "replay")
    n = ctx.pick(3000, 40000)
    cases = [random_history(ctx.rng, ctx.rng.randint(2, 8)) for _ in range(n)]
    traces = check.pmap(containers.run_history, cases, chunksize=200)
    ctx.cov["recorded_random"] += len(traces)
    validate(ctx, traces, "random")
    ctx.assumptions += ["argument arrays are filled with a small integer identifying the argument, so the projection can "
                        "tell which data a container holds", "+= on a holding container is numpy's in-place addition: "
                        "only well-formedness and error-leaves-untouched are required of it"]


def replay(ctx, payload):
    tr = containers.run_history(payload["case"]["history"])
    print(json.dumps(tr["events"], indent=0))
    validate(ctx, [tr], "replay")
    return ctx.finish()
