"""C08 - a dotted parameter key addresses exactly one existing setting."""

from __future__ import annotations

import json
import string

from harness import check, settings, tlc

TEXTS = ["12", "-3", "1.5", "1e3", "0.25", "True", "[1, 2]", "[[1, 2], [3]]", "(1, 2)", "abc", "'abc'", "a b", "1,2",
         "x_1", "3.0e-1x", "0", "[0, 5]", "[0.0, 20.0, 0]", "False"]
# documented ranges copied here only to keep C08's own cases inside them (C12 decides the ranges)
SAFE_TEXT = {"quantum_efficiency": ["0.25"], "temperature": ["12", "1.5", "1e3", "0.25"],
             "adc_bit_resolution": ["12"], "charge_to_volt_conversion": ["12", "1.5", "0.25"],
             "pre_amplification": ["12", "1.5", "1e3", "0.25"], "full_well_capacity": ["12", "1.5", "1e3", "0.25"],
             "total_thickness": ["12", "1.5", "1e3", "0.25"], "pixel_vert_size": ["12", "1.5", "1e3", "0.25"],
             "pixel_horz_size": ["12", "1.5", "1e3", "0.25"], "pixel_scale": ["12", "1.5", "0.25"],
             "wavelength": ["12", "1.5", "1e3", "0.25"]}
SAFE_NUM = {"quantum_efficiency": 0.5, "temperature": 250.0, "row": 8, "col": 8,   # containers are sized at construction
             "adc_bit_resolution": 12,
            "charge_to_volt_conversion": 2.5, "pre_amplification": 3.0, "full_well_capacity": 500.0,
            "total_thickness": 5.0, "pixel_vert_size": 2.5, "pixel_horz_size": 3.5, "pixel_scale": 0.5, "wavelength": 550.0}


def strip(tr):
    return {"leaves": tr["leaves"], "disabled": tr["disabled"], "tree0": tr["tree0"],
            "events": [{k: v for k, v in ev.items() if k != "why"} for ev in tr["events"]]}


def corrupt(tr):
    for ev in tr["events"]:
        if ev["out"] == "ok":
            ev["changed"] = ev["changed"] + [["detector", "geometry", "ghost"]]
            return tr
    return None


def validate(ctx, traces, label, prop):
    stripped = [strip(t) for t in traces]
    rejected = ctx.validate("SettingsTrace", stripped, label=label, corrupt=corrupt)
    if not rejected:
        return
    idx = [k for k, _ in rejected][:100]
    diag = tlc.diagnose("SettingsTrace", [stripped[k] for k in idx], tag=f"{prop}_{label}")
    seen = set()
    for pos, k in enumerate(idx, start=1):
        l, exp = diag.get(pos, (dict(rejected)[k], {}))
        exp = exp if isinstance(exp, dict) else {}
        ev = traces[k]["events"][l - 1]
        key = ".".join(ev["key"])
        kind = traces[k]["case"].get("kind", "ccd")
        info = {"path": ev["path"], "field": ev["key"][-1], "detector": kind, "resolves": exp.get("resolves"),
                "inrange": exp.get("inrange"), "out": ev["out"]}
        if exp.get("resolves") and exp.get("inrange") is False:
            sig = "range"
            text = (f"{ev['path']}: {key} = {ev['text'] or ev['val']} is outside the documented range but was "
                    f"{'accepted' if ev['out'] == 'ok' else 'handled as ' + ev['out']} (stored {ev['stored']})")
        elif exp.get("resolves") is False:
            sig = "key.unresolved-accepted" if ev["out"] == "ok" else "key.unresolved"
            text = (f"{ev['path']}: key {key} names no existing setting but the assignment was {ev['out']}; settings "
                    f"changed/created: {ev['changed']}; a pipeline ran: {ev['ran']}")
        elif exp.get("refused") and ev["out"] == "ok":
            sig = "key.disabled-model"
            text = f"{ev['path']}: {key} addresses an argument of a disabled model but the sweep ran ({ev['changed']})"
        elif ev["out"] == "rejected":
            sig = "key.refused"
            text = f"{ev['path']}: valid assignment {key} = {ev['text'] or ev['val']} was refused: {ev.get('why')}"
        else:
            sig = "assign.effect"
            text = (f"{ev['path']}: {key} = {ev['text'] or ev['val']}: settings changed {ev['changed']}, value read back "
                    f"{ev['stored']}, expected value {exp.get('value')}")
        sk = (sig, ev["path"], ev["key"][-1] if sig == "range" else len(ev["key"]))
        if sk in seen:
            continue
        seen.add(sk)
        ctx.violation(sig, text, {"kind": "settings", "history": traces[k]["case"]}, info)


DICT_ARG = ["pipeline", "photon_collection", "m1", "arguments", "opt"]


def in_scope(case):
    """C08 keeps its values inside the documented ranges (C12 decides those)."""
    for op in case["ops"]:
        if op["key"] == DICT_ARG:
            return False      # the dictionary-valued argument as a whole is a setting too; its entries are what is modelled
        if op["path"] not in ("sweep", "override"):
            return False
        # named deviations (explicit refusals, never silent): a sweep over an `enabled` flag is refused by
        # validate_steps (AttributeError), and sweeping geometry.row/col leaves the containers at their old size
        if op["path"] == "sweep" and (op["key"][-1].startswith("enabled") or op["key"][-1].lower().startswith(("row", "col"))):
            return False
        f = op["key"][-1]
        if f in SAFE_NUM and op["key"][0] == "detector" and len(op["key"]) == 3 and not op.get("text"):
            op["val"] = settings.canon(SAFE_NUM[f])
    return True


def mutate(rng, key):
    key = list(key)
    how = rng.choice(["sub", "del", "ins", "trunc", "swapcase", "extra"])
    i = rng.randrange(len(key))
    c = key[i]
    if how == "trunc" and len(key) > 1:
        return key[:-1]
    if how == "extra":
        return key + [rng.choice(["x", "arguments", "enabled"])]
    if how == "sub":
        j = rng.randrange(len(c))
        key[i] = c[:j] + rng.choice(string.ascii_lowercase) + c[j + 1:]
    elif how == "del" and len(c) > 1:
        j = rng.randrange(len(c))
        key[i] = c[:j] + c[j + 1:]
    elif how == "ins":
        j = rng.randrange(len(c) + 1)
        key[i] = c[:j] + rng.choice(string.ascii_lowercase + "_") + c[j:]
    else:
        key[i] = c.upper() if c.islower() else c.lower()
    return key


def run(ctx):
    _, cases = ctx.model_check("MC_Settings", f"MC_Settings_{ctx.tier}.cfg", export=True,
                               note="every (entry point, key variant, value) over a representative processor")
    ctx.cov["exhaustive"] = True
    cases = [{"kind": "ccd", "ops": c} for c in cases]
    cases = [c for c in cases if in_scope(c)]
    traces = check.pmap(settings.run_history, cases, chunksize=20)
    ctx.cov["replayed_cases"] += len(traces)
    ctx.sample({"op": cases[5]["ops"], "event": traces[5]["events"]})
    validate(ctx, traces, "replay", "C08")
    # random: textual values, mutated keys, all detector types, sequences of operations
    rng = ctx.rng
    rnd = []
    for k in range(ctx.pick(300, 4000)):
        kind = rng.choice(["ccd", "cmos", "mkid", "apd"])
        leaves = settings.leaves_of(kind)
        ops = []
        for j in range(rng.randint(1, 3)):
            leaf = rng.choice(leaves)
            key = leaf if rng.random() < 0.5 else mutate(rng, leaf)
            foreign = None
            if rng.random() < 0.12:
                # a setting that exists for another detector type only (first used there, in this very process)
                k2 = rng.choice([x for x in ("ccd", "cmos", "mkid", "apd") if x != kind])
                cand = [l for l in settings.leaves_of(k2) if l not in leaves and l[0] == "detector"]
                if cand:
                    leaf = key = rng.choice(cand)
                    foreign = k2
            if key == DICT_ARG:
                key = leaf
            if key != leaf and [c.lstrip("_") for c in key] == list(leaf):
                key = leaf          # private twins (..._quantum_efficiency) are not generated (see assumptions)
            path = "override" if j < 2 and rng.random() < 0.6 else "sweep"
            f = leaf[-1]
            if path == "sweep" and f in ("row", "col"):
                path = "override"
            if foreign:
                op = {"path": path, "key": key, "val": settings.canon(2.0)}
            elif leaf[0] == "detector":
                if f in SAFE_TEXT and rng.random() < 0.5:
                    op = {"path": path, "key": key, "text": rng.choice(SAFE_TEXT[f])}
                elif f in SAFE_NUM:
                    op = {"path": path, "key": key, "val": settings.canon(SAFE_NUM[f])}
                else:
                    continue
            elif f == "enabled":
                op = {"path": path, "key": key, "val": settings.canon(rng.choice([True, False]))} \
                    if path == "override" else None
                if op is None:
                    continue
            else:
                op = {"path": path, "key": key, "text": rng.choice(TEXTS)} if rng.random() < 0.7 else \
                     {"path": path, "key": key, "val": settings.canon(rng.choice([3, 2.5, [1, 2], "zz", 0, 0.0, False, [0, 5], [0.0, 20.0], [1, 0, 2], [[0, 1], [2, 0]], [False, True], (0, 3)]))}
            if foreign:
                op["elsewhere"] = foreign
                if "text" in op:
                    op.pop("text"); op["val"] = settings.canon(2.0)
            ops.append(op)
            if path == "sweep":
                break
        if ops:
            rnd.append({"kind": kind, "ops": ops})
    traces = check.pmap(settings.run_history, rnd, chunksize=20)
    ctx.cov["recorded_random"] += len(traces)
    validate(ctx, traces, "random", "C08")
    ctx.assumptions += ["every setting of the real processor (all attributes of the settings objects, every model flag and "
                        "argument) is snapshotted before and after each assignment to detect changed or newly created settings",
                        "keys through private twins (e.g. ..._quantum_efficiency) are not generated"]


def replay(ctx, payload):
    tr = settings.run_history(payload["case"]["history"])
    print(json.dumps(tr["events"], indent=0))
    validate(ctx, [tr], "replay", ctx.prop)
    return ctx.finish()
