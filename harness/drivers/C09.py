"""C09 - a failing model always fails the run, with its identity attached."""

from __future__ import annotations

from harness.drivers import _modes
from harness.drivers import _pipeline as P


def run(ctx):
    _, cases = P.family(ctx, "faults", required=P.CORE_ACTIONS + ["ModelRaise"],
                        note="a fault at every (step, model position) x exception class x steps x mode")
    ctx.cov["exhaustive"] = True
    jobs = []
    for k, cfg in enumerate(cases):
        jobs.append(dict(cfg=cfg))
        jobs.append(dict(cfg=cfg, construction="yaml", yaml_order="reversed", debug=(k % 2 == 0)))
        if k % 3 == 1:      # models that are callables without a __name__ (functools.partial, callable objects)
            jobs.append(dict(cfg=cfg, extra={"callable": ("partial", "object")[k % 2]}, construction=("python", "yaml")[(k // 3) % 2]))
        if k % 2 == 0:      # the command-line entry point pyxel.run(<file>), with and without an outputs section
            jobs.append(dict(cfg=cfg, construction="run-file", extra={"with_outputs": k % 4 == 0}))
    traces = P.record(jobs)
    ctx.cov["replayed_cases"] += len(traces)
    ctx.sample({"cfg_fault": [m for g in jobs[9]["cfg"]["pipe"] for m in g if m["kind"] == "raise"],
                "events_tail": traces[9]["events"][-2:]})
    P.validate(ctx, traces, "replay")

    # random pipelines with a fault somewhere
    n = ctx.pick(150, 2000)
    jobs = []
    for k in range(n):
        cfg = P.random_cfg(ctx.rng, max_models=3, max_steps=5, kinds=("obs", "set", "add"))
        slots = [(gi, mi) for gi, g in enumerate(cfg["pipe"]) for mi, _ in enumerate(g)]
        if slots:
            gi, mi = ctx.rng.choice(slots)
            m = cfg["pipe"][gi][mi]
            m.update(kind="raise", b=ctx.rng.choice(["ValueError", "KeyError", "RuntimeError", "ZeroDivisionError",
                                                     "ProbeError", "TypeError", "OSError", "StopIteration",
                                                     "AssertionError", "LookupError"]),
                     args=f"boom {k} in {m['name']}", mask=ctx.rng.choice([-1, 1, 2, 4, 6]))
        jobs.append(dict(cfg=cfg, construction=ctx.rng.choice(["python", "yaml"])))
    traces = P.record(jobs)
    ctx.cov["recorded_random"] += len(traces)
    P.validate(ctx, traces, "random")
    _modes.check_modes_failures(ctx)
    ctx.assumptions += ["the caller-side exception is projected to (type, message, group and model named in __notes__)"]


def replay(ctx, payload):
    if payload["case"].get("kind") != "exposure":
        return _modes.replay(ctx, payload)
    return P.replay_case(ctx, payload)
