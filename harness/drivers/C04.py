"""C04 - seeded runs are bit-reproducible and seeding never leaks."""

from __future__ import annotations

import json

from harness import check, seed, tlc


def strip(tr):
    return {"events": tr["events"]}


def corrupt(tr):
    for ev in tr["events"]:
        if ev["e"] == "end":
            ev["tok"] = "0" * 16
            return tr
    return None


def validate(ctx, traces, label):
    rejected = ctx.validate("SeedTrace", [strip(t) for t in traces], label=label, corrupt=corrupt)
    if not rejected:
        return
    idx = [k for k, _ in rejected][:60]
    diag = tlc.diagnose("SeedTrace", [strip(traces[k]) for k in idx], tag=f"C04_{label}")
    seen = set()
    for pos, k in enumerate(idx, start=1):
        l, exp = diag.get(pos, (dict(rejected)[k], {}))
        exp = exp if isinstance(exp, dict) else {}
        evs = traces[k]["events"]
        ev = evs[l - 1] if 1 <= l <= len(evs) else {"e": "?"}
        job = traces[k]["case"]["job"]
        what = job.get("fn") or job.get("mode")
        info = {"what": what, "seed": job.get("seed", job.get("pseed")), "event": ev["e"]}
        if ev["e"] == "end":
            op = (exp.get("open") or [{}])[0]
            if op.get("tok") != ev.get("tok"):
                sig = "restored"
                text = (f"{what}: the process-wide generator is not back in the state it had before the seeded call "
                        f"(before {op.get('tok')}, after {ev.get('tok')}, raised={ev.get('raised')})")
            elif exp.get("known") and exp.get("known") != ev.get("out"):
                sig = "reproducible"
                text = f"{what}: same input and seed gave a different result ({exp.get('known')} vs {ev.get('out')})"
            else:
                sig = "protocol"
                text = f"{what}: a seeded block opened inside the call was not closed ({exp})"
        else:
            sig = "protocol"
            text = f"{what}: generator protocol broken at event {ev} ({exp})"
        if (sig, what) in seen:
            continue
        seen.add((sig, what))
        ctx.violation(sig, text, traces[k]["case"], info)


def run(ctx):
    ctx.model_check("MC_Seed", f"MC_Seed_{ctx.tier}.cfg", required_actions=["Enter", "Draw", "Leave"],
                    note="all programs of Enter(seed|none) / Draw(uniform|normal) / Leave(normal|exception) with nesting "
                         "depth 2, <= 3 blocks, from every prior generator state")
    ctx.cov["exhaustive"] = True
    found = seed.census()
    uncovered = sorted(set(found) - set(seed.FIXTURES))
    jobs = []
    k = 0
    for name in sorted(found):
        for kind, kwargs in seed.FIXTURES.get(name, []):
            for shape in ([3, 3], [4, 5]):
                for sd in (ctx.pick([0, 7], [0, 7, 12345])):         # 0 is a seed like any other
                    for fail_at in (None, 1, 2):
                        k += 1
                        jobs.append({"fn": name, "kind": kind, "kwargs": kwargs, "seed": sd, "shape": shape,
                                     "fail_at": fail_at, "k": k + ctx.seed})
                # the function without a seed of its own, governed by a pipeline seed around it
                k += 1
                jobs.append({"fn": name, "kind": kind, "kwargs": kwargs, "seed": None, "outer": 77 + len(shape) + shape[0],
                             "shape": shape, "fail_at": None, "k": k + ctx.seed})
    traces = check.pmap(seed.census_job, jobs, chunksize=4)
    broken = sorted({t["case"]["job"]["fn"] + ": " + t["fixture_error"] for t in traces if t["fixture_error"]})
    good = [t for t in traces if not t["fixture_error"]]
    ctx.notes["seeded_functions_found"] = len(found)
    ctx.notes["seeded_functions_covered"] = len({t["case"]["job"]["fn"] for t in good})
    ctx.notes["seeded_functions_uncovered"] = uncovered + broken
    if len({t["case"]["job"]["fn"] for t in good}) < 10:
        raise tlc.MachineryError(f"census covers too few functions: {broken}")
    # a fixture whose output does not depend on the seed exercises nothing: machinery failure
    by_fn: dict = {}
    for t in good:
        j = t["case"]["job"]
        if j.get("outer") is None and j["fail_at"] is None:
            outs = [e["out"] for e in t["events"] if e["e"] == "end"]
            by_fn.setdefault((j["fn"], tuple(j["shape"])), {})[j["seed"]] = outs[0] if outs else None
    dull = sorted({fn for (fn, _), d in by_fn.items() if len(d) >= 2 and len(set(d.values())) == 1})
    if dull:
        raise tlc.MachineryError(f"fixtures whose output does not depend on the seed: {dull}")
    ctx.cov["replayed_cases"] += len(good)
    ctx.sample({"function": good[0]["case"]["job"]["fn"], "events": good[0]["events"][:8]})
    validate(ctx, good, "census")
    # seeded runs
    jobs = []
    k = 0
    for mode in ("exposure", "observation", "observation_dask"):
        for pseed in ctx.pick([0, 5], [0, 5, 99]):
            for mseed in (None, 0, 3):
                for fail in (False, True):
                    for shape in ([3, 3], [2, 3]):
                        k += 1
                        jobs.append({"mode": mode, "pseed": pseed, "mseed": mseed, "fail": fail, "k": k + ctx.seed,
                                     "shape": shape, "steps": 1 + k % 3})
    traces = check.pmap(seed.run_job, jobs, chunksize=2)
    ctx.cov["replayed_cases"] += len(traces)
    validate(ctx, traces, "runs")
    from harness.drivers import _calib
    _calib.check_seeded(ctx)
    # several threads: forced schedules through the real context manager (PyxelSeedThreads)
    from harness import seedthreads
    seedthreads.check_threads(ctx)
    # seeded blocks recorded by the hooks while the repository's own tests and examples run
    from harness import hooks
    hooks.check_seed(ctx)
    ctx.assumptions += ["generator states are compared through a digest of the full legacy state (key, position, pending "
                        "Gaussian)", "model functions without a fixture are listed in the evidence as uncovered"]


def replay(ctx, payload):
    case = payload["case"]
    if case["kind"] == "seedhooktrace":
        rejected = ctx.validate("SeedHookTrace", [case["trace"]], label="replay", corrupt=None, cfg="SeedHookTrace.cfg")
        for k, l in rejected:
            ctx.violation("hooks.seed-replay", f"stored seed-hook trace rejected at event {l}", case, {})
        return ctx.finish()
    if case["kind"] == "threads":
        from harness import seedthreads
        return seedthreads.replay_threads(ctx, payload)
    if case["kind"] == "census":
        tr = seed.census_job(case["job"])
    elif case["kind"] == "run":
        tr = seed.run_job(case["job"])
    else:
        from harness.drivers import _calib
        job = {k: v for k, v in case["job"].items() if k != "mode"}
        _calib.seeded_case(ctx, job)
        return ctx.finish()
    print(json.dumps(tr["events"], indent=0)[:3000])
    validate(ctx, [tr], "replay")
    return ctx.finish()
