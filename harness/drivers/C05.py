"""C05 - observation runs exactly the requested parameter space, correctly labelled."""

from __future__ import annotations

from harness.drivers import _obs as O


def run(ctx):
    _, cases = O.family(ctx)
    ctx.cov["exhaustive"] = True
    cases = [c for c in cases if not c["fault"]]
    jobs = [dict(ocfg=c, variant=k, scheduler="synchronous" if c["dask"] else None, repeat=2 if k % 4 == 1 else 1)
            for k, c in enumerate(cases)]
    # sessions: run, edit the configured value of one or two parameters on the caller's objects, run again
    for k, c in enumerate(cases):
        nen = sum(1 for p in c["params"] if p["enabled"])
        if c["mode"] == "sequential" and nen >= 2:
            # where it matters most: the parameters that are not being stepped keep their (new) configured values
            # (executed without dask: with dask this space is the known finding space.sequential-dask)
            jobs.append(dict(ocfg=dict(c, dask=False), variant=k, repeat=2, reconf=[[0, 3], [len(c["params"]) - 1, 2]]))
        elif any(not p["enabled"] for p in c["params"]) and k % 2 == 0:
            j = next(i for i, p in enumerate(c["params"]) if not p["enabled"])
            jobs.append(dict(ocfg=c, variant=k, scheduler="synchronous" if c["dask"] else None, repeat=2, reconf=[[j, 2]]))
        if k % 3 == 0 and len(c["params"]) >= 1:
            rc = [[(k // 3) % len(c["params"]), 1 + (k % 3)]]
            if len(c["params"]) > 1 and k % 2:
                rc.append([(k // 3 + 1) % len(c["params"]), 2])
            jobs.append(dict(ocfg=c, variant=k, scheduler="synchronous" if c["dask"] else None, repeat=2, reconf=rc))
    traces = O.record(jobs)
    ctx.cov["replayed_cases"] += len(traces)
    ctx.sample({"ocfg": traces[1]["ocfg"], "events": traces[1]["events"][:6]})
    O.validate(ctx, traces, "replay")
    big_spaces(ctx)
    ctx.assumptions += ["the data of a run is an injective code of the values the probe models received, so the data "
                        "attests what was applied", "coordinate naming convention (short name, model.argument on "
                        "collision) is taken from the documentation"]


def big_spaces(ctx, prop="C05", sched=("synchronous",), keep=None):
    """Random spaces beyond the model-checking bounds: up to 4 parameters, lists up to 3, all modes."""
    rng = ctx.rng
    n = ctx.pick(60, 600)
    jobs = []
    for k in range(n):
        np_ = rng.randint(1, 4)
        params = []
        for j in range(np_):
            vals = rng.sample([1, 2, 3], rng.randint(1, 3))
            params.append({"vals": vals, "enabled": rng.random() < 0.8, "sink": rng.choice(["photon", "photon", "signal"])})
        if sum(p["sink"] == "signal" for p in params) > 3 or not any(p["enabled"] for p in params):
            params[0]["enabled"] = True
            params[0]["sink"] = "photon"
        mode = rng.choice(["product", "sequential", "custom"])
        table = []
        if mode == "custom":
            ne = sum(p["enabled"] for p in params)
            table = [[rng.randint(1, 3) for _ in range(ne)] for _ in range(rng.randint(1, 4))]
        dask = rng.random() < 0.5
        jobs.append(dict(ocfg={"mode": mode, "params": params, "table": table, "dask": dask, "fault": []},
                         variant=k, scheduler=rng.choice(sched) if dask else None))
    # directed: colliding short names (stamp.a / stamp2.a) around uniquely named parameters
    A, B = "pipeline.photon_collection.stamp.arguments.a", "pipeline.charge_measurement.stamp2.arguments.a"
    U = ["detector.environment.temperature", "pipeline.photon_collection.stamp.arguments.v",
         "detector.characteristics.quantum_efficiency", "pipeline.charge_measurement.stamp2.arguments.g"]
    sink = {A: "photon", B: "signal", U[0]: "photon", U[1]: "photon", U[2]: "photon", U[3]: "signal"}
    orders = [[U[0], A, B], [A, U[1], B], [A, B, U[2]], [U[3], B, A], [U[0], A, U[1], B], [B, U[2], A]]
    for k, order in enumerate(orders):
        for mode in ("product", "sequential", "custom"):
            for dask in (False, True):
                params = [{"vals": [[1, 2], [2, 3, 1], [3, 1]][(k + j) % 3], "enabled": True, "sink": sink[key]}
                          for j, key in enumerate(order)]
                table = [[1 + (r + j) % 3 for j in range(len(order))] for r in range(3)] if mode == "custom" else []
                jobs.append(dict(ocfg={"mode": mode, "params": params, "table": table, "dask": dask, "fault": []},
                                 variant=k, scheduler=sched[0] if dask else None, force=order))
    if keep is not None:
        jobs = [j for j in jobs if keep(j["ocfg"])]
    traces = O.record(jobs)
    ctx.cov["recorded_random"] += len(traces)
    O.validate(ctx, traces, "random", prop)


def replay(ctx, payload):
    if payload["case"].get("kind") in ("eval", "calib"):
        from harness.drivers import _calib
        return _calib.replay(ctx, payload)
    return O.replay(ctx, payload)
