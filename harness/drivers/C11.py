"""C11 - calibration fitness is the declared figure of merit on the declared data."""

from __future__ import annotations

from harness import calib, check
from harness.drivers import _calib as K


def run(ctx):
    traces = K.eval_traces(ctx, fams=("ranges", "layouts"))
    ctx.cov["exhaustive"] = True
    ctx.cov["replayed_cases"] += len(traces)
    ctx.notes["range_pairs_refused"] = sum(1 for t in traces if t["events"][0]["out"] == "rejected")
    ctx.sample({"ranges": [traces[5]["kcfg"]["tr"], traces[5]["kcfg"]["rr"]], "events": traces[5]["events"][:3]})
    K.validate(ctx, traces, [K.strip_eval(t, "C11") for t in traces], "eval", "C11")
    jobs = K.full_jobs(ctx, ctx.pick(4, 30))
    for k, j in enumerate(jobs):          # half of them: the same objects calibrated twice (a session)
        if k % 2 == 0:
            j["repeat"] = 2
    # a local optimiser whose result may replace any individual of the population: the champion of an island is
    # still the best candidate ever evaluated there, so its history never gets worse
    import copy
    for n, (sel, rep) in enumerate([("worst", "best"), ("random", "best"), ("worst", "random"), ("best", "worst")][: ctx.pick(3, 4)]):
        for seed_ in ctx.pick((3,), (2, 3, 5)):
            j = copy.deepcopy(jobs[n % len(jobs)])
            j.pop("repeat", None)
            j.update({"algo": "nlopt", "sel": sel, "rep": rep, "pygmo_seed": seed_, "evolutions": 4, "islands": 2,
                      "topology": "unconnected", "variant": 200 + n})
            jobs.append(j)
    full = check.pmap(calib.calib_job, jobs, chunksize=1)
    ctx.cov["recorded_random"] += len(full)
    for t in full:
        K.rank_fitness(t)
        sim = t["meta"].get("simulated")
        if sim not in (None, "ok"):
            ctx.violation("simulated", f"the returned simulated data: {sim}", t["case"], {})
    K.validate(ctx, full, [K.strip_calib(t, "C11") for t in full], "full", "C11")
    ctx.assumptions += ["frames are small integer matrices and the probe's simulated frame is A*ramp + B, so TLC computes the "
                        "fitness exactly for integer decision vectors", "champions of complete calibrations are re-simulated "
                        "through a plain exposure and the figure of merit recomputed with independent numpy code (rtol 1e-9)"]


def replay(ctx, payload):
    return K.replay(ctx, payload)
