"""C02 - readout clock and per-step bucket life-cycle (destructive / non-destructive)."""

from __future__ import annotations

import json

from harness.drivers import _pipeline as P
from harness.px import NANTICK

HOWS = ["list", "setter", "string", "npyfile", "txtfile", "scalar"]


def run(ctx):
    _, cases = P.family(ctx, "sched", note="all schedules over 0..MAXTICK of length <= MAXLEN (valid and invalid) x "
                                            "start x mode x write patterns x prior contents")
    ctx.cov["exhaustive"] = True
    jobs = []
    for k, cfg in enumerate(cases):
        jobs.append(dict(cfg=cfg, readout_how=HOWS[k % len(HOWS)], kind=("ccd", "cmos")[k % 2]))
        if k % 4 == 0:
            jobs.append(dict(cfg=cfg, construction="yaml", yaml_order="shuffled", seed=k))
    traces = P.record(jobs)
    ctx.cov["replayed_cases"] += len(traces)
    nrej = sum(1 for t in traces if t["events"][-1]["e"] == "rejected")
    ctx.notes["replayed_invalid_schedules"] = nrej
    ctx.sample({"cfg": jobs[3]["cfg"]["times"], "start": jobs[3]["cfg"]["start"], "events": traces[3]["events"][:2]})
    P.validate(ctx, traces, "replay")

    # random long schedules, big tick values, random write patterns and priors
    n = ctx.pick(120, 2500)
    jobs = []
    for k in range(n):
        cfg = P.random_cfg(ctx.rng, max_models=2, max_steps=ctx.pick(24, 64), kinds=("obs", "set", "add", "padd"),
                           big_ticks=True, p_img=0.95, prior_p=0.6)
        if k % 6 == 5:
            # almost uniform sampling: long steps that differ by one tick (relative difference below 1e-5)
            step, t, pts = 1 << 17, 0, []
            for _ in range(ctx.rng.randint(3, 8)):
                t += step + ctx.rng.choice([0, 1, 1, 2])
                pts.append(t)
            cfg["times"], cfg["start"] = pts, 0
        if k % 8 == 3 and cfg["times"] and cfg["start"] > NANTICK:
            # a readout time that is not a number, at any position (every comparison with it is false): the
            # schedule is not increasing and must be refused whichever way it arrives
            cfg["times"] = list(cfg["times"])
            cfg["times"].insert(ctx.rng.randint(0, len(cfg["times"])), NANTICK)
            jobs.append(dict(cfg=cfg, readout_how=("list", "setter")[k % 16 == 3], kind=ctx.rng.choice(["ccd", "cmos", "mkid", "apd"])))
            continue
        jobs.append(dict(cfg=cfg, readout_how=ctx.rng.choice(HOWS), kind=ctx.rng.choice(["ccd", "cmos", "mkid", "apd"])))
    traces = P.record(jobs)
    ctx.cov["recorded_random"] += len(traces)
    P.validate(ctx, traces, "random")
    # sessions: a re-used detector starts every run from the buckets the previous run left, and the
    # schedule / readout mode may change between the runs
    traces = P.sessions(ctx, [], ctx.pick(60, 1200), kinds=("obs", "set", "add"))
    P.validate(ctx, traces, "sessions")
    readout_object(ctx)
    from harness import hooks
    hooks.check(ctx)
    ctx.assumptions += ["times are dyadic rationals (ticks of 1/1024 s) so the float clock arithmetic of the code is exact",
                        "buckets are observed by probe models at entry; prior contents are loaded through the public setters"]


def _strip_ro(tr):
    return {"events": [{k: v for k, v in ev.items() if k not in ("exc", "fresh")} for ev in tr["events"]]}


def _corrupt_ro(tr):
    for ev in tr["events"]:
        if ev["out"] == "ok" and ev["after"]["live"] == 1:
            ev["after"]["steps"] = [s + 1 for s in ev["after"]["steps"]]
            return tr
    return None


def _validate_ro(ctx, traces, label):
    stripped = [_strip_ro(t) for t in traces]
    rejected = ctx.validate("ReadoutTrace", stripped, label=label, corrupt=_corrupt_ro)
    for t in traces:
        for ev in t["events"]:
            if ev["op"] == "replace" and ev["out"] == "ok" and ev.get("fresh") is False:
                ctx.violation("readout.replace.alias", "Readout.replace returned the object it was called on",
                              {"kind": "readout", "history": t["case"]}, {"op": "replace"})
    if not rejected:
        return
    from harness import tlc
    idx = [k for k, _ in rejected][:60]
    diag = tlc.diagnose("ReadoutTrace", [stripped[k] for k in idx], tag=f"C02_{label}")
    seen = set()
    for pos, k in enumerate(idx, start=1):
        l, exp = diag.get(pos, (dict(rejected)[k], None))
        evs = traces[k]["events"]
        ev = evs[l - 1] if 1 <= l <= len(evs) else {}
        sig = f"readout.{ev.get('op', 'incomplete')}"
        if sig in seen:
            continue
        seen.add(sig)
        ctx.violation(sig, f"Readout object before the call {exp}: {ev.get('op')}(times={ev.get('times') if ev.get('given') else None}, "
                           f"start={ev.get('start') if ev.get('hasS') else None}, nd={ev.get('nd') if ev.get('hasN') else None}) "
                           f"[ticks of 0.5 s] -> {ev.get('out')} {ev.get('exc', '')}; object afterwards {ev.get('after')}, "
                           f"object it was called on {ev.get('old')}, time_step_it consistent: {ev.get('it_ok')}",
                      {"kind": "readout", "history": traces[k]["case"]}, {"op": ev.get("op")})


def random_ro(rng, n):
    big = rng.random() < 0.3
    def times():
        m = rng.choice([0, 1, 1, 2, 3, 5])
        if rng.random() < 0.6:   # increasing
            t, out = rng.randint(0, 3), []
            for _ in range(m):
                out.append(t * (1 << 12 if big else 1))
                t += rng.randint(0 if rng.random() < 0.2 else 1, 3)
            return out
        return [rng.randint(-1, 6) for _ in range(m)]
    ops = [{"op": "construct", "given": rng.random() < 0.85, "times": times(), "hasS": True,
            "start": rng.randint(-2, 3), "hasN": True, "nd": rng.random() < 0.5}]
    if not ops[0]["given"]:
        ops[0]["times"] = [0]
    for _ in range(n):
        op = rng.choice(["set_times", "set_times", "set_start", "set_nd", "replace", "replace"])
        o = {"op": op, "given": op == "set_times", "times": [0], "hasS": op == "set_start", "start": 0, "hasN": op == "set_nd",
             "nd": rng.random() < 0.5}
        if op == "set_times":
            o["times"] = times()
        elif op == "set_start":
            o["start"] = rng.randint(-2, 6)
        elif op == "replace":
            o["given"] = rng.random() < 0.8
            o["times"] = times() if o["given"] else [0]
            o["hasS"] = rng.random() < 0.5
            o["start"] = rng.randint(-2, 4) if o["hasS"] else 0
            o["hasN"] = rng.random() < 0.5
        ops.append(o)
    return {"ops": ops, "variant": rng.randint(0, 7)}


def readout_object(ctx):
    """PyxelReadout: the Readout object under sequences of assignments and `replace` (the object the
    schedules of this property come from; sweeps of the readout times go through `replace`)."""
    from harness import check, readout
    res, cases = ctx.model_check("MC_Readout", f"MC_Readout_{ctx.tier}.cfg", export=True, workers=1,
                                 note="every history construct;op;op over times in 0..MAXTICK (length <= 2), starts -1..MAXTICK-1")
    for k, c in enumerate(cases):
        c["variant"] = k
    traces = check.pmap(readout.run_history, cases, chunksize=200)
    ctx.cov["replayed_cases"] += len(traces)
    ctx.sample({"readout_history": cases[7]["ops"], "events": traces[7]["events"]})
    _validate_ro(ctx, traces, "readout_replay")
    cases = [random_ro(ctx.rng, ctx.rng.randint(1, 7)) for _ in range(ctx.pick(2500, 40000))]
    traces = check.pmap(readout.run_history, cases, chunksize=200)
    ctx.cov["recorded_random"] += len(traces)
    ctx.notes["readout_object_histories"] = len(traces)
    _validate_ro(ctx, traces, "readout_random")


def replay(ctx, payload):
    if payload["case"].get("kind") == "readout":
        from harness import readout
        tr = readout.run_history(payload["case"]["history"])
        print(json.dumps(tr["events"]))
        _validate_ro(ctx, [tr], "replay")
        return ctx.finish()
    if payload["case"].get("kind") == "hooktrace":
        from harness import hooks
        return hooks.replay(ctx, payload)
    return P.replay_case(ctx, payload)
