"""C02 - readout clock and per-step bucket life-cycle (destructive / non-destructive)."""

from __future__ import annotations

from harness.drivers import _pipeline as P

HOWS = ["list", "setter", "string", "npyfile", "txtfile", "scalar"]


def run(ctx):
    _, cases = P.family(ctx, "sched", note="all schedules over 0..MAXTICK of length <= MAXLEN (valid and invalid) x "
                                            "start x mode x write patterns x prior contents")
    ctx.cov["exhaustive"] = True
    jobs = []
    for k, cfg in enumerate(cases):
        jobs.append(dict(cfg=cfg, readout_how=HOWS[k % len(HOWS)], kind=("ccd", "cmos")[k % 2]))
        if k % 4 == 0:
            jobs.append(dict(cfg=cfg, construction="yaml", yaml_order="shuffled", seed=k))
    traces = P.record(jobs)
    ctx.cov["replayed_cases"] += len(traces)
    nrej = sum(1 for t in traces if t["events"][-1]["e"] == "rejected")
    ctx.notes["replayed_invalid_schedules"] = nrej
    ctx.sample({"cfg": jobs[3]["cfg"]["times"], "start": jobs[3]["cfg"]["start"], "events": traces[3]["events"][:2]})
    P.validate(ctx, traces, "replay")

    # random long schedules, big tick values, random write patterns and priors
    n = ctx.pick(120, 2500)
    jobs = []
    for k in range(n):
        cfg = P.random_cfg(ctx.rng, max_models=2, max_steps=ctx.pick(24, 64), kinds=("obs", "set", "add", "padd"),
                           big_ticks=True, p_img=0.95, prior_p=0.6)
        if k % 6 == 5:
            # almost uniform sampling: long steps that differ by one tick (relative difference below 1e-5)
            step, t, pts = 1 << 17, 0, []
            for _ in range(ctx.rng.randint(3, 8)):
                t += step + ctx.rng.choice([0, 1, 1, 2])
                pts.append(t)
            cfg["times"], cfg["start"] = pts, 0
        jobs.append(dict(cfg=cfg, readout_how=ctx.rng.choice(HOWS), kind=ctx.rng.choice(["ccd", "cmos", "mkid", "apd"])))
    traces = P.record(jobs)
    ctx.cov["recorded_random"] += len(traces)
    P.validate(ctx, traces, "random")
    # sessions: a re-used detector starts every run from the buckets the previous run left, and the
    # schedule / readout mode may change between the runs
    traces = P.sessions(ctx, [], ctx.pick(60, 1200), kinds=("obs", "set", "add"))
    P.validate(ctx, traces, "sessions")
    from harness import hooks
    hooks.check(ctx)
    ctx.assumptions += ["times are dyadic rationals (ticks of 1/1024 s) so the float clock arithmetic of the code is exact",
                        "buckets are observed by probe models at entry; prior contents are loaded through the public setters"]


def replay(ctx, payload):
    if payload["case"].get("kind") == "hooktrace":
        from harness import hooks
        return hooks.replay(ctx, payload)
    return P.replay_case(ctx, payload)
