"""C15 - charge-handling models neither create nor lose charge unaccountably."""

from __future__ import annotations

import json

from harness import check, conserve, tlc


def strip(t):
    return {"events": [{k: v for k, v in e.items() if k not in ("why", "detail")} for e in t["events"]]}


def corrupt(t):
    for e in t["events"]:
        if e["e"] == "persist":
            e["outpixel"] += 1
            return t
        if e["e"] == "collect":
            e["out"] += 1
            return t
        if e["e"] == "envelope":
            e["minok"] = False
            return t
    return None


def validate(ctx, traces, label):
    rejected = ctx.validate("ConservationTrace", [strip(t) for t in traces], label=label, corrupt=corrupt)
    if not rejected:
        return
    idx = [k for k, _ in rejected][:80]
    diag = tlc.diagnose("ConservationTrace", [strip(traces[k]) for k in idx], tag=f"C15_{label}")
    seen = set()
    for pos, k in enumerate(idx, start=1):
        l, exp = diag.get(pos, (dict(rejected)[k], {}))
        exp = exp if isinstance(exp, dict) else {}
        ev = traces[k]["events"][l - 1]
        info = {"model": ev["e"] if ev["e"] != "envelope" else ev["kind"]}
        if ev["e"] == "persist":
            info["species"] = len(ev["trapped"])
            info["capacities"] = bool(ev["caps"])
            tot_in = ev["pixel"] + sum(ev["trapped"])
            tot_out = ev["outpixel"] + sum(ev["outtrapped"])
            info["lost"] = tot_out != tot_in
            text = (f"persistence step with {len(ev['trapped'])} species: pixel {ev['pixel']} trapped {ev['trapped']} densities "
                    f"{ev['dens']} time factors {ev['tf']} capacities {ev['caps']} -> pixel {ev['outpixel']} trapped "
                    f"{ev['outtrapped']} (total {tot_in} -> {tot_out}); specification: {exp.get('expected')} {ev.get('why', '')}")
        elif ev["e"] == "envelope":
            text = f"{ev['kind']}: total before {ev['before']} after {ev['after']} (scaled), non-negative: {ev['minok']} {ev.get('detail')}"
        else:
            text = f"{ev}"
        key = (ev["e"], info.get("species"), info.get("lost"))
        if key in seen:
            continue
        seen.add(key)
        ctx.violation("conservation." + info["model"], text, traces[k]["case"], info)


def run(ctx):
    out = tlc.workdir() / "export_C15.json"
    if out.exists():
        out.unlink()
    res = tlc.run_tlc("MC_ConservationExport", f"MC_Conservation_{ctx.tier}.cfg", tag="C15_laws", env={"OUT_FILE": str(out)},
                      workers=1, timeout=3000)
    if not res.ok or not out.exists():
        raise tlc.MachineryError(f"the conservation laws do not hold on the specification:\n{res.output[-2000:]}")
    cases = json.loads(out.read_text())
    out.unlink()
    ncases = int(res.output.split('"LAWCASES", ')[1].split(">>")[0])     # cases of the grid the laws were evaluated on
    ctx.cov["states"] += ncases
    ctx.cov["transitions"] += ncases
    ctx.cov["model_checks"].append({"instance": f"MC_Conservation_{ctx.tier}.cfg", "cases_checked_by_ASSUME": ncases,
                                    "space": "PersistenceLaws over pixel x prior trapped charge x densities x time factors x "
                                             "capacities for 1..MAXS species; full well, kernel and collection laws",
                                    "wall_s": round(res.wall_s, 1)})
    ctx.cov["exhaustive"] = True
    jobs = [{"cases": cases[k:k + 40]} for k in range(0, len(cases), 40)]
    traces = check.pmap(conserve.persist_job, jobs, chunksize=1)
    ctx.cov["replayed_cases"] += len(cases)
    ctx.sample({"case": cases[3], "event": traces[0]["events"][3]})
    validate(ctx, traces, "persistence")
    simple = check.pmap(conserve.simple_models_job, [{"seed": ctx.seed * 1000 + k} for k in range(ctx.pick(60, 800))], chunksize=4)
    ctx.cov["recorded_random"] += len(simple)
    validate(ctx, simple, "simple")
    env = [{"seed": ctx.seed * 1000 + k, "model": "cdm", "pattern": k % 4, "direction": ("parallel", "serial")[(k // 4) % 2],
            "dense": bool((k // 8) % 2)} for k in range(ctx.pick(48, 400))]
    env += [{"seed": ctx.seed * 1000 + k, "model": "persistence"} for k in range(ctx.pick(40, 600))]
    et = check.pmap(conserve.envelope_job, env, chunksize=4)
    ctx.cov["recorded_random"] += len(et)
    validate(ctx, et, "envelope")
    ctx.assumptions += ["persistence cases use dyadic densities / time factors and pixel values with enough factors of two: "
                        "the implementation's float arithmetic is exact and compared exactly with the transcription",
                        "CDM and multi-step persistence are real-valued: only the envelope (no creation, no negatives, "
                        "pixel + trapped constant within 1e-9) is validated; the binomial distribution itself is not checked"]


def replay(ctx, payload):
    c = payload["case"]
    tr = {"persist": conserve.persist_job, "simple": conserve.simple_models_job, "envelope": conserve.envelope_job}[c["kind"]](c["job"])
    print(json.dumps(tr["events"][:6], indent=0)[:2500])
    validate(ctx, [tr], "replay")
    return ctx.finish()
