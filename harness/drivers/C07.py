"""C07 - parallel execution yields the same results as sequential execution."""

from __future__ import annotations

import copy

from harness.drivers import _obs as O

SCHEDS = [("synchronous", None), ("threads", 1), ("threads", 2), ("threads", 4), ("threads", 16), ("processes", 2)]


def entries_of(tr):
    return {(tuple(e["label"]), e["id"]): (e["photon"], e["signal"]) for e in tr["events"] if e["e"] == "entry"}


def run(ctx):
    _, cases = O.family(ctx)
    ctx.cov["exhaustive"] = True
    cases = [c for c in cases if c["dask"] and not c["fault"]]
    jobs = []
    nproc = 0
    for k, c in enumerate(cases):
        sch, w = SCHEDS[k % len(SCHEDS)]
        if sch == "processes":
            nproc += 1
            if nproc > ctx.pick(3, 12):
                sch, w = "threads", 3
        jobs.append(dict(ocfg=c, variant=k, scheduler=sch, workers=w, delay=1.0))
        seq = copy.deepcopy(c)
        seq["dask"] = False
        jobs.append(dict(ocfg=seq, variant=k))
    traces = O.record(jobs)
    ctx.cov["replayed_cases"] += len(traces)
    # same values, entry by entry, as the sequential execution of the same space
    for a, b in zip(traces[0::2], traces[1::2]):
        ea, eb = entries_of(a), entries_of(b)
        if a["ocfg"]["mode"] == "product":
            ea = {k[0]: v for k, v in ea.items()}
            eb = {k[0]: v for k, v in eb.items()}
        if eb and ea != eb and not (a["ocfg"]["mode"] == "sequential"):
            ctx.violation("parallel.differs", f"parallel entries {ea} differ from sequential entries {eb}",
                          {"kind": "observation", "ocfg": a["ocfg"], "meta": a["meta"]},
                          {"mode": a["ocfg"]["mode"], "dask": True, "scheduler": a["meta"]["scheduler"],
                           "nparams_enabled": sum(1 for p in a["ocfg"]["params"] if p["enabled"])})
    ctx.sample({"ocfg": traces[0]["ocfg"], "scheduler": traces[0]["meta"]["scheduler"],
                "events": traces[0]["events"][:5]})
    O.validate(ctx, traces, "replay")
    # larger random spaces under thread pools with data-dependent delays
    rng = ctx.rng
    jobs = []
    for k in range(ctx.pick(20, 200)):
        np_ = rng.randint(1, 3)
        params = [{"vals": rng.sample([1, 2, 3], rng.randint(2, 3)), "enabled": True,
                   "sink": rng.choice(["photon", "signal"])} for _ in range(np_)]
        mode = rng.choice(["product", "product", "custom"])
        table = [[rng.randint(1, 3) for _ in range(np_)] for _ in range(rng.randint(2, 5))] if mode == "custom" else []
        sch, w = rng.choice(SCHEDS[:5])
        jobs.append(dict(ocfg={"mode": mode, "params": params, "table": table, "dask": True, "fault": []},
                         variant=k, scheduler=sch, workers=w, delay=2.0))
    traces = O.record(jobs)
    ctx.cov["recorded_random"] += len(traces)
    O.validate(ctx, traces, "random")
    from harness.drivers import _modes
    _modes.check_parallel_extras(ctx)
    ctx.assumptions += ["completion order is perturbed by a sleep that decreases with the parameter code; natural races "
                        "are never required to occur", "process-pool runs cannot be observed from inside: only the "
                        "merged data (which codes the applied values) is validated for them"]


def replay(ctx, payload):
    if payload["case"].get("kind") in ("eval", "calib"):
        from harness.drivers import _calib
        return _calib.replay(ctx, payload)
    return O.replay(ctx, payload)
