"""C07 - parallel execution yields the same results as sequential execution."""

from __future__ import annotations

import copy

from harness.drivers import _obs as O

SCHEDS = [("synchronous", None), ("threads", 1), ("threads", 2), ("threads", 4), ("threads", 16), ("processes", 2)]


def entries_of(tr):
    return {(tuple(e["label"]), e["id"]): (e["photon"], e["signal"]) for e in tr["events"] if e["e"] == "entry"}


def run(ctx):
    _, cases = O.family(ctx)
    ctx.cov["exhaustive"] = True
    cases = [c for c in cases if c["dask"] and not c["fault"]]
    jobs = []
    nproc = 0
    for k, c in enumerate(cases):
        sch, w = SCHEDS[k % len(SCHEDS)]
        if sch == "processes":
            nproc += 1
            if nproc > ctx.pick(3, 12):
                sch, w = "threads", 3
        jobs.append(dict(ocfg=c, variant=k, scheduler=sch, workers=w, delay=1.0))
        seq = copy.deepcopy(c)
        seq["dask"] = False
        jobs.append(dict(ocfg=seq, variant=k))
    traces = O.record(jobs)
    ctx.cov["replayed_cases"] += len(traces)
    # same values, entry by entry, as the sequential execution of the same space
    for a, b in zip(traces[0::2], traces[1::2]):
        ea, eb = entries_of(a), entries_of(b)
        if a["ocfg"]["mode"] == "product":
            ea = {k[0]: v for k, v in ea.items()}
            eb = {k[0]: v for k, v in eb.items()}
        if eb and ea != eb and not (a["ocfg"]["mode"] == "sequential"):
            ctx.violation("parallel.differs", f"parallel entries {ea} differ from sequential entries {eb}",
                          {"kind": "observation", "ocfg": a["ocfg"], "meta": a["meta"]},
                          {"mode": a["ocfg"]["mode"], "dask": True, "scheduler": a["meta"]["scheduler"],
                           "nparams_enabled": sum(1 for p in a["ocfg"]["params"] if p["enabled"])})
    ctx.sample({"ocfg": traces[0]["ocfg"], "scheduler": traces[0]["meta"]["scheduler"],
                "events": traces[0]["events"][:5]})
    O.validate(ctx, traces, "replay")
    # larger random spaces under thread pools with data-dependent delays
    rng = ctx.rng
    jobs = []
    for k in range(ctx.pick(20, 200)):
        np_ = rng.randint(1, 3)
        params = [{"vals": rng.sample([1, 2, 3], rng.randint(2, 3)), "enabled": True,
                   "sink": rng.choice(["photon", "signal"])} for _ in range(np_)]
        mode = rng.choice(["product", "product", "custom"])
        table = [[rng.randint(1, 3) for _ in range(np_)] for _ in range(rng.randint(2, 5))] if mode == "custom" else []
        sch, w = rng.choice(SCHEDS[:5])
        jobs.append(dict(ocfg={"mode": mode, "params": params, "table": table, "dask": True, "fault": []},
                         variant=k, scheduler=sch, workers=w, delay=2.0))
    traces = O.record(jobs)
    ctx.cov["recorded_random"] += len(traces)
    O.validate(ctx, traces, "random")
    seeded_parallel(ctx)
    deprecated_files(ctx, cases)
    from harness.drivers import _modes
    _modes.check_parallel_extras(ctx)
    ctx.assumptions += ["completion order is perturbed by a sleep that decreases with the parameter code; natural races "
                        "are never required to occur", "process-pool runs cannot be observed from inside: only the "
                        "merged data (which codes the applied values) is validated for them"]


def deprecated_files(ctx, cases):
    """The deprecated entry point pyxel.observation_mode writes files without reporting them: file <n> must hold
    the bucket of the n-th parameter combination under every scheduler, as it does sequentially."""
    from harness import check, outputs
    sel = [c for c in cases if c["mode"] == "product" and any(p["enabled"] and p["sink"] == "photon" for p in c["params"])]
    sel = sel[: ctx.pick(6, 40)]
    jobs = []
    for k, c in enumerate(sel):
        jobs.append({"ocfg": dict(c, dask=False), "variant": k})
        sch, w = [("threads", 2), ("threads", 4), ("threads", 16), ("synchronous", None)][k % 4]
        jobs.append({"ocfg": dict(c, dask=True), "variant": k, "scheduler": sch, "workers": w, "delay": 2.0})
    res = check.pmap(outputs.deprecated_files_job, jobs, chunksize=1)
    ctx.cov["replayed_cases"] += len(res)
    for ref, par in zip(res[0::2], res[1::2]):
        case = {"kind": "depfiles", "job": par["job"]}
        if ref["error"] or not ref["files"]:
            continue          # the sequential reference could not be produced: nothing to compare with
        if par["error"]:
            ctx.violation("files.deprecated.failed", f"pyxel.observation_mode failed under {par['job'].get('scheduler')}: "
                          f"{par['error'][-300:]}", case, {})
        elif par["files"] != ref["files"]:
            ctx.violation("files.deprecated", f"files of the parallel observation (run number -> content) {par['files']} do not "
                          f"correspond to the parameter combinations as they do sequentially {ref['files']}", case,
                          {"scheduler": par["job"].get("scheduler")})
    ctx.notes["deprecated_entry_point_file_runs"] = len(res)


def seeded_parallel(ctx):
    """Seeded stochastic pipelines: whatever the scheduler, every run draws the first values of the seed's own
    stream (PyxelSeedThreads: C04T_Reproducible) and the process-wide generator is restored."""
    from harness import check, obs, seedthreads
    jobs = [dict(dask=False)]
    for sch, w in SCHEDS[:5] + ([("processes", 2)] if ctx.tier == "thorough" else []):
        for delay in ctx.pick([20.0], [0.0, 5.0, 20.0, 60.0]):
            jobs.append(dict(dask=True, scheduler=sch, workers=w, delay=delay,
                             levels=[1.0, 2.0, 3.0, 4.0][:ctx.pick(4, 4)]))
    results = check.pmap(obs.seeded_job, jobs, chunksize=1)
    ctx.cov["replayed_cases"] += len(results)
    for r in results:
        case = {"kind": "seeded", "job": r["job"]}
        if r["error"]:
            ctx.violation("parallel.seeded.failed", f"seeded observation failed under {r['job']}: {r['error']}", case, {})
            continue
        bad = [x for x in r["runs"] if not (x["own_stream_photon"] and x["own_stream_signal"])]
        if bad:
            ctx.violation("parallel.seeded", f"with pipeline_seed the runs {bad} did not draw from the seed's own stream "
                          f"under scheduler {r['job'].get('scheduler')}/{r['job'].get('workers')}", case,
                          {"scheduler": r["job"].get("scheduler")})
        if not r["restored"] and r["job"].get("scheduler") != "processes":
            ctx.violation("parallel.seeded.restored", "the process-wide generator is not restored after a seeded "
                          f"observation under {r['job'].get('scheduler')}/{r['job'].get('workers')}", case, {})
    ctx.notes["seeded_stochastic_observations"] = len(results)
    # forced overlaps of seeded blocks (TLC-generated schedules of PyxelSeedThreads)
    seedthreads.check_threads(ctx)


def replay(ctx, payload):
    if payload["case"].get("kind") == "depfiles":
        from harness import outputs
        j = payload["case"]["job"]
        par = outputs.deprecated_files_job(j)
        ref = outputs.deprecated_files_job({"ocfg": dict(j["ocfg"], dask=False), "variant": j.get("variant", 0)})
        print(ref["files"], par["files"], par["error"][-200:])
        if par["error"] or par["files"] != ref["files"]:
            ctx.violation("files.deprecated", f"{par['files']} vs {ref['files']}", payload["case"], {})
        return ctx.finish()
    if payload["case"].get("kind") == "threads":
        from harness import seedthreads
        return seedthreads.replay_threads(ctx, payload)
    if payload["case"].get("kind") == "seeded":
        from harness import obs
        r = obs.seeded_job(payload["case"]["job"])
        print(r)
        if r["error"] or not r.get("restored") or any(not (x["own_stream_photon"] and x["own_stream_signal"]) for x in r["runs"]):
            ctx.violation("parallel.seeded", f"{r}", payload["case"], {})
        return ctx.finish()
    if payload["case"].get("kind") in ("eval", "calib"):
        from harness.drivers import _calib
        return _calib.replay(ctx, payload)
    return O.replay(ctx, payload)
