"""C10 - calibration candidates map to the right parameters, inside their bounds."""

from __future__ import annotations

from harness import calib, check
from harness.drivers import _calib as K


def run(ctx):
    traces = K.eval_traces(ctx, fams=("layouts",))
    ctx.cov["exhaustive"] = True
    ctx.cov["replayed_cases"] += len(traces)
    ctx.sample({"vars": traces[2]["kcfg"]["vars"], "events": traces[2]["events"][:3]})
    K.validate(ctx, traces, [K.strip_eval(t, "C10") for t in traces], "eval", "C10")
    jobs = K.full_jobs(ctx, ctx.pick(4, 30))
    jobs += K.session_jobs(ctx)
    for k, j in enumerate(jobs):          # half of them: the same objects calibrated twice (a session)
        if k % 2 == 0:
            j["repeat"] = 2
    full = check.pmap(calib.calib_job, jobs, chunksize=1)
    ctx.cov["recorded_random"] += len(full)
    ctx.notes["candidates_checked"] = sum(1 for t in full for e in t["events"] if e["e"] == "cand")
    ctx.notes["reported_individuals_checked"] = sum(1 for t in full for e in t["events"] if e["e"] == "champ")
    for t in full:
        K.rank_fitness(t)
        if not any(e["e"] == "done" for e in t["events"]):
            ctx.violation("calib.failed", f"calibration failed: {t['events'][-1]}", t["case"], {})
        # the data reported for an island were produced with the parameters reported for that island
        sim = t["meta"].get("simulated")
        if sim not in (None, "ok"):
            ctx.violation("reported.simulated", f"simulated data reported with the champions: {sim}", t["case"], {})
    K.validate(ctx, full, [K.strip_calib(t, "C10") for t in full], "full", "C10")
    ctx.assumptions += ["decision vectors of complete calibrations are real numbers: box, boundaries and layout are "
                        "checked by TLC on values scaled by 10^6 (bounds rounded outward); value = 10^component of "
                        "logarithmic parameters is checked in floating point (<= 8 ulp) by the harness and passed as a flag",
                        "direct evaluations use integer decision vectors and are compared exactly"]


def replay(ctx, payload):
    return K.replay(ctx, payload)
