"""Shared driver code for the properties decided on PyxelObservation (C05 C06 C07, C09/C01 modes)."""

from __future__ import annotations

import copy
import json

from harness import check, obs, tlc

ACTIONS = ["Plan", "Merge"]


def family(ctx, note=""):
    tier = ctx.tier
    res, _ = ctx.model_check("MC_Observation", f"MC_Observation_{tier}.cfg", required_actions=ACTIONS,
                             note=note or "all parameter spaces: <= MAXP parameters x value lists x enabled flags x "
                                          "sinks x 3 modes x dask on/off x fault")
    out = tlc.workdir() / f"export_{ctx.prop}_obs.json"
    if out.exists():
        out.unlink()
    r2 = tlc.run_tlc("MC_ObservationExport", f"MC_Observation_{tier}_export.cfg", tag=f"{ctx.prop}_obs_export",
                     env={"OUT_FILE": str(out)}, workers=1, timeout=900)
    if not out.exists():
        raise tlc.MachineryError(f"export of observation family failed:\n{r2.output[-2000:]}")
    cases = json.loads(out.read_text())
    out.unlink()
    return res, cases


def not_zip_case(c):
    """sequential + dask + >= 2 enabled parameters runs another space altogether (known finding of
    C05/C07); other properties leave those configurations to C05/C07."""
    return not (c["mode"] == "sequential" and c["dask"] and sum(1 for p in c["params"] if p["enabled"]) >= 2)


def _job(kw):
    return obs.record_observation(**kw)


def record(jobs):
    return check.pmap(_job, jobs, chunksize=8)


FIELDS = {
    "C05": {"run": ("e", "eff"), "entry": ("e", "label", "id", "photon", "signal"), "user_after": None,
            "done": ("e",), "failed": ("e",)},
    "C06": {"run": ("e", "eff", "seenMem"), "entry": ("e", "label", "id", "photon", "signal"),
            "user_after": ("e", "mem", "unchanged"), "done": ("e",), "failed": ("e",)},
    "C07": {"run": ("e", "eff"), "entry": ("e", "label", "id", "photon", "signal"), "user_after": None,
            "done": ("e",), "failed": ("e",)},
    "C09": {"run": ("e", "eff"), "entry": ("e", "label", "id", "photon", "signal"), "user_after": None,
            "done": ("e",), "failed": ("e", "eff", "msg", "msgok")},
    "C01": {"run": ("e", "eff"), "entry": None, "user_after": None, "done": ("e",), "failed": ("e",)},
}


def strip(tr, prop):
    sel = FIELDS[prop]
    evs = []
    for ev in tr["events"]:
        keep = ("e", "j", "tok") if ev["e"] == "reconf" else sel.get(ev["e"], ("e",))
        if keep is None:
            continue
        evs.append({k: ev[k] for k in keep if k in ev})
    out = {"ocfg": tr["ocfg"], "observed": tr["observed"], "events": evs}
    if prop == "C01":      # entries are not compared: let the specification finish without them
        out["events"] = [e for e in evs if e["e"] != "done"] + ([{"e": "done_noentries"}] if any(e["e"] == "done" for e in evs) else [])
    return out


def corrupt_for(prop):
    def fn(tr):
        for ev in tr["events"]:
            if prop in ("C05", "C07") and ev["e"] == "entry":
                ev["photon"] += 1
                return tr
            if prop == "C06" and ev["e"] == "user_after":
                ev["mem"] += 1
                return tr
            if prop == "C09" and ev["e"] == "failed" and "msgok" in ev:
                ev["msgok"] = False
                return tr
            if prop == "C01" and ev["e"] == "run":
                ev["eff"] = [7] * len(ev["eff"])
                return tr
        return None
    return fn


def classify(tr, ev, exp):
    mode = tr["ocfg"]["mode"]
    if ev is None:
        return "trace.incomplete", "the recording ended early"
    st = exp if isinstance(exp, dict) else {}
    if ev["e"] == "run":
        pend = [st["plan"][r - 1] for r in st.get("pending", [])] if st.get("plan") else []
        if ev.get("eff") in pend and ev.get("seenMem") not in (None, 5):
            return "isolation.state-leak", (f"the run with values {ev['eff']} started from state {ev['seenMem']} instead of the "
                                            "caller's original state 5 (detector memory / a mutated list argument leaked "
                                            "from another run or from the caller)")
        return "space.run", (f"a run executed with effective values {ev.get('eff')} (seenMem {ev.get('seenMem')}) that is "
                             f"not a pending element of the requested space {st.get('plan')} (pending {st.get('pending')})")
    if ev["e"] == "entry":
        return "labelling", (f"result entry {ev} does not hold the data of the run it is labelled with; "
                             f"expected tree {st.get('tree')} for plan {st.get('plan')} (phase {st.get('phase')}, "
                             f"runs not executed: {st.get('pending')})")
    if ev["e"] == "user_after":
        return "user-objects", f"the caller's objects changed: {ev} ({tr['meta'].get('user_diff')})"
    if ev["e"] in ("done", "done_noentries"):
        if st.get("phase") == "failed":
            return "failure.swallowed", f"a run raised ({st.get('error')}) but a result was returned"
        return "space.missing", (f"the result was returned but runs {st.get('pending')} of {st.get('plan')} were not "
                                 f"executed / entries {st.get('seen')} only were found")
    if ev["e"] == "failed":
        if st.get("phase") == "failed":
            return "failure.identity", f"failure {ev} does not identify the failing run {st.get('error')}"
        return "failure.unexpected", f"the observation raised {ev.get('exc')}: {str(ev.get('msg'))[:200]} (stage {ev.get('stage')})"
    return "trace.unexplained", f"{ev}"


def validate(ctx, traces, label, prop=None):
    prop = prop or ctx.prop
    for tr in traces:
        if any(ev["e"] == "harness-error" for ev in tr["events"]):
            raise tlc.MachineryError(f"harness error while recording: {tr['events']} {tr['meta']}")
    stripped = [strip(t, prop) for t in traces]
    cfg = "ObservationTrace.cfg"
    rejected = ctx.validate("ObservationTrace", stripped, label=label, corrupt=corrupt_for(prop), cfg=cfg)
    if not rejected:
        return []
    # every rejected trace is diagnosed (known findings are matched on the diagnosed clause), in chunks
    idx = [k for k, _ in rejected][:600]
    diag = {}
    for c0 in range(0, len(idx), 60):
        part = idx[c0:c0 + 60]
        dg = tlc.diagnose("ObservationTrace", [stripped[k] for k in part], tag=f"{ctx.prop}_{label}_{c0}", cfg=cfg)
        for pos, val in dg.items():
            diag[c0 + pos] = val
    out = []
    for pos, k in enumerate(idx, start=1):
        l, exp = diag.get(pos, (dict(rejected)[k], None))
        evs = stripped[k]["events"]
        ev = evs[l - 1] if 1 <= l <= len(evs) else None
        sig, text = classify(traces[k], ev, exp)
        info = {"mode": traces[k]["ocfg"]["mode"], "dask": bool(traces[k]["ocfg"]["dask"]),
                "scheduler": traces[k]["meta"].get("scheduler"), "workers": traces[k]["meta"].get("workers"),
                "nparams_enabled": sum(1 for p in traces[k]["ocfg"]["params"] if p["enabled"])}
        ctx.violation(sig, text + f" [{traces[k]['meta']}]", {"kind": "observation", "ocfg": traces[k]["ocfg"],
                                                             "meta": traces[k]["meta"]}, info)
        out.append((k, sig))
    for k, _ in rejected[600:]:
        ctx.violation("trace.rejected", "further rejected trace", {"kind": "observation", "ocfg": traces[k]["ocfg"],
                                                                   "meta": traces[k]["meta"]},
                      {"mode": traces[k]["ocfg"]["mode"], "dask": bool(traces[k]["ocfg"]["dask"])})
    return out


def replay(ctx, payload):
    case = payload["case"]
    m = case["meta"]
    tr = obs.record_observation(case["ocfg"], variant=m.get("variant", 0), scheduler=m.get("scheduler"),
                                workers=m.get("workers"), exc=m.get("exc", "ValueError"),
                                delay=m.get("delay", 0.0), force=m.get("force"), repeat=m.get("repeat", 1),
                                reconf=m.get("reconf"))
    print(json.dumps(tr["events"], indent=0)[:3000])
    validate(ctx, [tr], "replay")
    return ctx.finish()
