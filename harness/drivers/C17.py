"""C17 - splitting an exposure into more readouts does not change collected charge."""

from __future__ import annotations

import numpy as np

from harness import check, px
from harness.drivers import _pipeline as P

KINDS = ["ccd", "cmos", "mkid", "apd"]


# ---- part B: library models whose rate is not an integer level -------------------------------

def recipes(shape):
    r, c = shape
    img = px.flux_file(3.25 * px.TICK, shape)
    return {
        "elliptic": [("photon_collection", "pyxel.models.photon_collection.illumination",
                      {"level": 640.0, "option": "elliptic", "object_size": [2, 3], "object_center": [1, 2]})],
        "rectangular+stripe": [("photon_collection", "pyxel.models.photon_collection.illumination",
                                {"level": 96.0, "option": "rectangular", "object_size": [1, 2], "object_center": [0, 1]}),
                               ("photon_collection", "pyxel.models.photon_collection.stripe_pattern",
                                {"period": 2, "level": 48.0, "angle": 0, "startwith": 1, "time_scale": 0.5})],
        "image+charge": [("photon_collection", "pyxel.models.photon_collection.load_image",
                          {"image_file": img, "convert_to_photons": False, "multiplier": 2.0, "time_scale": 4.0}),
                         ("charge_generation", "pyxel.models.charge_generation.load_charge",
                          {"filename": img, "time_scale": 2.0})],
        "darkcurrent": [("charge_generation", "pyxel.models.charge_generation.dark_current",
                         {"figure_of_merit": 1.0, "temporal_noise": False})],
        "usaf-like uniform+dark": [("photon_collection", "pyxel.models.photon_collection.illumination", {"level": 10.5}),
                                   ("charge_generation", "pyxel.models.charge_generation.dark_current",
                                    {"figure_of_merit": 0.3, "temporal_noise": False})],
    }


def flux_job(job):
    """Run one real-model exposure; return the pixel frame of every readout."""
    import pyxel
    from pyxel.exposure import Exposure, Readout
    from pyxel.pipelines import DetectionPipeline, ModelFunction
    shape = tuple(job["shape"])
    det = px.make_detector(job["kind"], *shape)
    det.environment.temperature = 300.0
    groups: dict = {}
    for n, (g, func, args) in enumerate(recipes(shape)[job["recipe"]]):
        groups.setdefault(g, []).append(ModelFunction(func=func, name=f"m{n}", arguments=dict(args)))
    groups.setdefault("charge_generation", []).insert(
        0, ModelFunction(func="pyxel.models.charge_generation.simple_conversion", name="conv",
                         arguments={"quantum_efficiency": job["qe"], "binomial_sampling": False}))
    groups["charge_collection"] = [ModelFunction(func="pyxel.models.charge_collection.simple_collection", name="coll")]
    groups["readout_electronics"] = [ModelFunction(func=px.PROBE, name="img", arguments={
        "_p": {"kind": "set", "b": "image", "base": 1, "mask": -1, "imgdt": "uint16"}})]
    if "photon_collection" not in groups:      # conversion needs photons
        groups["photon_collection"] = [ModelFunction(func="pyxel.models.photon_collection.illumination",
                                                     name="zero", arguments={"level": 0.0})]
    pipe = DetectionPipeline(**groups)
    ro = Readout(times=[t / px.TICK for t in job["times"]], start_time=job["start"] / px.TICK,
                 non_destructive=job["nd"])
    dt = pyxel.run_mode(Exposure(readout=ro), det, pipe)
    return np.asarray(dt["pixel"].values, dtype=float)


def part_b(ctx):
    rng = ctx.rng
    shape = (4, 4)
    total = 48
    nparts = ctx.pick(5, 14)
    jobs = []
    for rname in recipes(shape):
        for kind in (KINDS if not ctx.quick else ["ccd", "mkid"]):
            for start in (0, 5):
                parts = [[total]]
                for _ in range(nparts):
                    n = rng.randint(2, 12)
                    cuts = sorted(rng.sample(range(1, total), n - 1)) + [total]
                    parts.append(cuts)
                for nd in (True, False):
                    for cuts in parts:
                        jobs.append({"recipe": rname, "kind": kind, "shape": shape, "qe": 0.5, "nd": nd,
                                     "start": start, "times": [start + t for t in cuts], "cuts": cuts, "scale": 1})
                    if not nd:   # destructive: scale every interval by 2 and 4 - and down to nanoseconds
                        for c in (2, 4) + ((2.0 ** -30,) if start == 0 else ()):
                            jobs.append({"recipe": rname, "kind": kind, "shape": shape, "qe": 0.5, "nd": False,
                                         "start": start, "times": [start + c * t for t in parts[1]],
                                         "cuts": parts[1], "scale": c})
    frames = check.pmap(flux_job, jobs, chunksize=8)
    ctx.cov["replayed_cases"] += len(jobs)
    groups: dict = {}
    for j, f in zip(jobs, frames):
        groups.setdefault((j["recipe"], j["kind"], j["start"], j["nd"]), []).append((j, f))
    for (rname, kind, start, nd), lst in groups.items():
        ref_j, ref_f = lst[0]           # the single-readout exposure of the whole interval
        if not np.any(ref_f[-1] > 0):
            raise check.MachineryError(f"recipe {rname} collected no charge (vacuous)")
        for j, f in lst[1:]:
            case = {"kind": "flux", "job": j}
            if nd:
                if not np.allclose(f[-1], ref_f[-1], rtol=1e-11, atol=0):
                    ctx.violation("flux.partition", f"{rname} on {kind}: non-destructive exposure split at {j['cuts']} "
                                  f"collected {f[-1].ravel()[:4]} instead of {ref_f[-1].ravel()[:4]}", case,
                                  {"detector": kind})
            else:
                durs = np.diff([0] + [c * j["scale"] for c in j["cuts"]])
                rate = ref_f[-1] / (total)
                for k, d in enumerate(durs):
                    if not np.allclose(f[k], rate * d, rtol=1e-11, atol=0):
                        ctx.violation("flux.proportional", f"{rname} on {kind}: destructive frame {k} of duration {d} "
                                      f"ticks holds {f[k].ravel()[:4]}, expected {(rate * d).ravel()[:4]}", case,
                                      {"detector": kind})
                        break
        if not nd:     # exact scaling by powers of two
            base = [x for x in lst if x[0]["scale"] == 1 and x[0]["cuts"] == lst[-1][0]["cuts"]]
            for j, f in lst:
                if j["scale"] != 1 and base and not np.array_equal(f, base[0][1] * j["scale"]):
                    ctx.violation("flux.scaling", f"{rname} on {kind}: scaling all intervals by {j['scale']} did not "
                                  "scale the frames by the same factor", {"kind": "flux", "job": j}, {"detector": kind})
    ctx.sample({"flux_job": jobs[1], "final_pixel": frames[1][-1].ravel()[:4].tolist()})


def part_c(ctx):
    """The same flux pipelines swept through the observation modes (illumination level x readout time, both
    declaration orders, sequential loop and dask schedulers): every run is an exposure of its own, and TLC
    validates the buckets the result holds under the run's labels (rate x duration of that run)."""
    from harness import obs
    jobs = []
    for order in ("level-first", "times-first"):
        for dask_, sch, w in ((False, None, None), (True, "synchronous", None), (True, "threads", 3)):
            jobs.append({"bases": [1, 3], "times": [2048, 4096, 1024], "order": order, "dask": dask_, "scheduler": sch,
                         "workers": w, "base_time": 0.5})
            if not ctx.quick:
                jobs.append({"bases": [2, 1, 5], "times": [512, 8192], "order": order, "dask": dask_, "scheduler": sch,
                             "workers": w, "base_time": 3.0})
    results = check.pmap(obs.flux_sweep_job, jobs, chunksize=1)
    traces = []
    for r in results:
        if r["error"]:
            ctx.violation("flux.sweep.failed", f"sweep over level and readout time failed ({r['job']}): {r['error'][-300:]}",
                          {"kind": "fluxsweep", "job": r["job"]}, {})
        traces += r["traces"]
    ctx.cov["replayed_cases"] += len(traces)
    ctx.notes["flux_sweep_runs"] = len(traces)
    if traces:
        P.validate(ctx, traces, "sweeps")


def part_d(ctx, cases):
    """Sessions: the same detector and pipeline of real flux models exposed again - the same readout times from
    another start time, then in the other mode, then back (Restart, Reschedule of PyxelPipeline): every run
    collects rate x (its own end - its own start), whatever the detector was used for before."""
    jobs = []
    step = max(1, len(cases) // ctx.pick(60, 600))
    for k, cfg in list(enumerate(cases))[::step]:
        t0, st = cfg["times"][0], cfg["start"]
        other = next((x for x in (st - 1, st + 1, t0 - 1, 0) if x != st and x < t0), None)
        if other is None:
            continue
        ops = [["run"], ["resched", cfg["times"], other, cfg["nd"]], ["run"],
               ["resched", cfg["times"], other, not cfg["nd"]], ["run"],
               ["resched", cfg["times"], st, not cfg["nd"]], ["run"]]
        jobs.append(dict(cfg=cfg, ops=ops, real=k, kind=KINDS[k % 4]))
    traces = check.pmap(P._session_job, jobs, chunksize=4)
    ctx.cov["recorded_sessions"] = ctx.cov.get("recorded_sessions", 0) + len(traces)
    P.validate(ctx, traces, "sessions")


def run(ctx):
    _, cases = P.family(ctx, "flux", required=P.CORE_ACTIONS + ["SkipDisabled"],
                        note="every composition of an interval of MAXTICK ticks into <= MAXLEN readouts x start x "
                             "subsets of flux models x conversion factor x mode; C17 invariants")
    ctx.cov["exhaustive"] = True
    jobs = []
    for k, cfg in enumerate(cases):
        jobs.append(dict(cfg=cfg, real=k, kind=KINDS[k % 4]))
    traces = P.record(jobs)
    ctx.cov["replayed_cases"] += len(traces)
    ctx.sample({"cfg_times": jobs[2]["cfg"]["times"], "start": jobs[2]["cfg"]["start"], "nd": jobs[2]["cfg"]["nd"],
                "events_tail": traces[2]["events"][-1:]})
    P.validate(ctx, traces, "replay")
    part_b(ctx)
    part_c(ctx)
    part_d(ctx, cases)
    ctx.assumptions += ["integer rates and dyadic times make the float arithmetic of the flux models exact (part A); "
                        "computed rates (dark current, shaped illumination) are compared within rtol 1e-11 (part B)",
                        "the library's illumination / load_image / load_charge / simple_conversion / simple_collection "
                        "stand for the abstract flux, conv and collect effects of PyxelPipeline.Effect"]


def replay(ctx, payload):
    case = payload["case"]
    if case.get("kind") == "fluxsweep" or case.get("meta", {}).get("sweep"):
        from harness import obs
        r = obs.flux_sweep_job(case.get("job") or case["meta"]["sweep"])
        print(r["error"], [(t["meta"]["level_base"], t["meta"]["time_ticks"], t["events"][0]["result"]["pixel"]) for t in r["traces"]])
        if r["traces"]:
            P.validate(ctx, r["traces"], "replay")
        return ctx.finish()
    if case.get("kind") == "flux":
        f = flux_job(case["job"])
        print(f)
        return 1
    return P.replay_case(ctx, payload)
