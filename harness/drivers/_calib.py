"""Calibration: shared driver code for C10 / C11 and the calibration parts of C01 C04 C06 C07 C09."""

from __future__ import annotations

import copy
import hashlib
import json

from harness import calib, check, tlc

EVAL_FIELDS = {"C10": ("e", "out", "x", "applied", "converted", "lower", "upper"),
               "C11": ("e", "out", "x", "fitness", "ncalls"),
               "C01": ("e", "out", "x", "ncalls")}
CALIB_FIELDS = ("e", "out", "x", "params", "applied", "convok", "kind", "island", "evolution", "fitness", "resim",
                "ncalls", "msgok")


def family(ctx, fam):
    tier = ctx.tier
    ctx.model_check("MC_Calibration", f"MC_Calibration_{fam}_{tier}.cfg", required_actions=["Check"],
                    note={"ranges": "every pair of target / result fit ranges on a 3x3 target (equal, shifted, unequal "
                                    "extent, empty, reversed, out of bounds)",
                          "layouts": "every layout of <= MAXV scalar / vector, linear / logarithmic variables x 1..2 "
                                     "target-input pairs x weights x fitness functions, decision vectors at the box "
                                     "corners and centre"}[fam])
    out = tlc.workdir() / f"export_{ctx.prop}_cal_{fam}.json"
    if out.exists():
        out.unlink()
    r2 = tlc.run_tlc("MC_CalibrationExport", f"MC_Calibration_{fam}_{tier}_export.cfg", tag=f"{ctx.prop}_cal_{fam}_export",
                     env={"OUT_FILE": str(out)}, workers=1, timeout=600)
    if not out.exists():
        raise tlc.MachineryError(f"export of calibration family {fam} failed:\n{r2.output[-2000:]}")
    cases = json.loads(out.read_text())
    out.unlink()
    return cases


def xs_for(k):
    lo = [b for v in k["vars"] for b in v["lo"]]
    hi = [b for v in k["vars"] for b in v["hi"]]
    mid = [(a + b) // 2 for a, b in zip(lo, hi)]
    alt = [a if c % 2 == 0 else b for c, (a, b) in enumerate(zip(lo, hi))]
    out = []
    for x in (lo, hi, mid, alt):
        if x not in out:
            out.append(x)
    return out


def strip_eval(tr, prop):
    keep = EVAL_FIELDS[prop]
    evs = []
    for ev in tr["events"]:
        e = {k: v for k, v in ev.items() if k in keep}
        if prop == "C10" and e["e"] == "eval" and not e.get("applied"):
            e["applied"] = []
        evs.append(e)
    if prop == "C10" and tr.get("meta") and any(e["e"] == "build" and e["out"] == "ok" for e in evs):
        b = {"e": "bounds", "lower": [calib._intval(v) for v in tr["meta"]["lower"]],
             "upper": [calib._intval(v) for v in tr["meta"]["upper"]]}
        evs.insert(1, b)
    return {"kind": "eval", "kcfg": tr["kcfg"], "events": evs, "fault": -1}


def strip_calib(tr, prop):
    evs = []
    for ev in tr["events"]:
        e = {k: v for k, v in ev.items() if k in CALIB_FIELDS}
        if prop == "C10" and e["e"] == "champ":
            e["resim"], e["fitness"] = True, 0
        evs.append(e)
    return {"kind": "calib", "kcfg": tr["kcfg"], "events": evs, "fault": tr.get("fault", -1)}


def rank_fitness(tr):
    """Replace real-valued fitness by its rank inside the trace (only the order matters)."""
    vals = sorted({e["fit"] for e in tr["events"] if e["e"] == "champ"})
    for e in tr["events"]:
        if e["e"] == "champ":
            e["fitness"] = vals.index(e["fit"])
    return tr


def classify(tr, l, exp, prop):
    evs = tr["events"]
    ev = evs[l - 1] if 1 <= l <= len(evs) else {"e": "?"}
    exp = exp if isinstance(exp, dict) else {}
    k = tr["kcfg"]
    info = {"event": ev["e"], "tr": k["tr"], "rr": k["rr"], "nvars": len(k["vars"]),
            "log": any(v["log"] for v in k["vars"]), "vector": any(v["arity"] > 1 for v in k["vars"]),
            "npairs": len(k["pairs"])}
    if ev["e"] == "build":
        info["rangesok"] = exp.get("rangesok")
        sig = "ranges.accepted" if ev.get("out") == "ok" else "ranges.refused"
        return sig, (f"fit ranges target {k['tr']} / result {k['rr']} on a {len(k['pairs'][0]['target'])}x"
                     f"{len(k['pairs'][0]['target'][0])} target were {ev.get('out')} ({ev.get('why', '')}); the "
                     f"specification says RangesOK = {exp.get('rangesok')}"), info
    if ev["e"] == "bounds":
        return "bounds", f"get_bounds() gives {ev.get('lower')} .. {ev.get('upper')} for variables {k['vars']}", info
    if ev["e"] == "eval":
        want = exp.get("expect", {})
        if "why" in ev and ev.get("why"):
            return "eval.error", f"fitness({ev.get('x')}) raised {ev['why']} for ranges {k['tr']}/{k['rr']}", info
        if "applied" in ev and ev.get("applied") != want.get("applied") and prop in ("C10",):
            return "applied", (f"decision {ev.get('x')} applied to the pipeline as {ev.get('applied')} "
                               f"(converted {ev.get('converted')}), specification: {want.get('applied')}"), info
        if "fitness" in ev and ev.get("fitness") != want.get("fitness"):
            return "fitness", (f"fitness({ev.get('x')}) = {ev.get('fitness')} but the declared figure of merit on the "
                               f"declared data is {want.get('fitness')} (ranges {k['tr']}/{k['rr']}, {k['ff']}, "
                               f"{len(k['pairs'])} pair(s), model ran {ev.get('ncalls')} time(s))"), info
        return "eval", f"evaluation {ev} does not match the specification {want}", info
    if ev["e"] == "cand":
        return "candidate", (f"candidate {ev.get('x')} -> parameters {ev.get('params')} applied as {ev.get('applied')} "
                             f"(convok {ev.get('convok')}) violates box / boundaries / layout"), info
    if ev["e"] == "champ":
        return "reported", (f"reported {ev.get('kind')} of island {ev.get('island')} evolution {ev.get('evolution')}: "
                            f"decision {ev.get('x')} parameters {ev.get('params')} fitness {ev.get('fit')} "
                            f"(re-simulated {ev.get('refit')}, resim ok {ev.get('resim')}, conversion ok {ev.get('convok')}); "
                            f"champion history {exp.get('best')}"), info
    if ev["e"] in ("done", "failed"):
        return "failure", f"calibration ended with {ev} although a fault was injected after {tr.get('fault')} model calls", info
    return "trace", f"{ev}", info


def validate(ctx, traces, stripped, label, prop):
    def corrupt(t):
        for ev in t["events"]:
            if ev["e"] == "eval" and ev.get("fitness") is not None and "fitness" in ev:
                ev["fitness"] += 1
                return t
            if ev["e"] == "eval" and ev.get("applied"):
                ev["applied"][0][0] += 1
                return t
            if ev["e"] == "champ":
                ev["params"][0] += 1
                return t
        return None
    rejected = ctx.validate("CalibrationTrace", stripped, label=label, corrupt=corrupt)
    if not rejected:
        return
    idx = [k for k, _ in rejected][:60]
    diag = tlc.diagnose("CalibrationTrace", [stripped[k] for k in idx], tag=f"{prop}_{label}")
    seen = set()
    for pos, k in enumerate(idx, start=1):
        l, exp = diag.get(pos, (dict(rejected)[k], {}))
        t = dict(traces[k])
        t["events"] = stripped[k]["events"] if len(stripped[k]["events"]) == len(traces[k]["events"]) else traces[k]["events"]
        # use the original events (with 'why', 'fit') when indices agree
        sig, text, info = classify({**traces[k], "events": _align(traces[k]["events"], stripped[k]["events"])}, l, exp, prop)
        key = (sig, json.dumps({a: info[a] for a in ("tr", "rr")}) if sig.startswith("ranges") else "")
        if key in seen and len(seen) > 8:
            continue
        seen.add(key)
        ctx.violation(sig, text, traces[k]["case"], info)


def _align(orig, stripped):
    """Stripped event lists may contain an inserted 'bounds' event: return originals index-aligned."""
    out, j = [], 0
    for e in stripped:
        if e["e"] == "bounds":
            out.append(e)
        else:
            out.append(orig[j])
            j += 1
    return out


# ---------------------------------------------------------------------------------------------

def eval_traces(ctx, fams=("ranges", "layouts")):
    jobs = []
    for fam in fams:
        for k, c in enumerate(family(ctx, fam)):
            job = {"kcfg": c, "xs": xs_for(c), "variant": k}
            if k % 3 == 1 and len(c["vars"]) >= 2:
                # the calibrated parameters are arguments of different models that all have the same (short) name
                job["extra"] = {"collide": True}
            jobs.append(job)
    return check.pmap(calib.eval_job, jobs, chunksize=4)


def full_jobs(ctx, n, extra=None, **kw):
    rng = ctx.rng
    jobs = []
    algos = ["sade", "sga", "sade"]
    for k in range(n):
        nv = rng.randint(1, 3)
        vars_ = []
        for _ in range(nv):
            ar = rng.choice([1, 1, 2, 3])
            lg = rng.random() < 0.4
            if lg:
                lo = [rng.choice([-2, -1, 0]) for _ in range(ar)]
                hi = [a + rng.choice([1, 2]) for a in lo]
            else:
                lo = [rng.choice([0, 1, 2]) for _ in range(ar)]
                hi = [a + rng.choice([1, 3]) for a in lo]
            if rng.random() < 0.4:
                lo, hi = [lo[0]] * ar, [hi[0]] * ar
            vars_.append({"arity": ar, "log": lg, "lo": lo, "hi": hi})
        rows, cols = 4, 3
        npairs = rng.randint(1, 3)
        pairs = [{"inp": rng.choice([0, 2, 5]) if npairs > 1 else 0,
                  "w": [[1 + ((y + x + p) % 3 if rng.random() < 0.5 else 0) for x in range(cols)] for y in range(rows)],
                  "target": [[10 + 7 * p + y * cols + x for x in range(cols)] for y in range(rows)]} for p in range(npairs)]
        y0 = rng.choice([0, 1])
        tr = [y0, y0 + 2, 0, 2]
        dy = rng.choice([0, 1])
        kc = {"vars": vars_, "pairs": pairs, "tr": tr, "rr": [tr[0] + dy, tr[1] + dy, tr[2] + 1, tr[3] + 1],
              "ff": rng.choice(["abs", "sq"]), "rows": rows, "cols": cols}
        if k % 4 == 1:
            # declared scalar weights that are not integers (0.5, 2.5, 1.5: kcfg holds them as w / wdiv) on
            # targets stored as integer images
            for p, pr in enumerate(pairs):
                pr["w"] = [[(1, 5, 3)[p % 3]] * cols for _ in range(rows)]
            kc.update({"wdiv": 2, "scalar_w": True, "int_targets": True})
        job = {"kcfg": kc, "variant": k, "algo": algos[k % 3], "islands": rng.randint(1, 3), "evolutions": 2,
               "best": rng.choice([2, 3]), "pygmo_seed": rng.randint(1, 999), "topology": rng.choice(["unconnected", "ring", "fully_connected"])}
        job.update(kw)
        if extra:
            job["extra"] = dict(extra)
        jobs.append(job)
    return jobs


def session_jobs(ctx):
    """Directed sessions: the same calibration objects run twice, with every kind of declared
    parameter (scalar / vector, linear / logarithmic, shared / per-component boundaries)."""
    import copy
    base = full_jobs(ctx, 1)[0]
    layouts = [
        [{"arity": 2, "log": True, "lo": [1, 2], "hi": [2, 3]}, {"arity": 1, "log": False, "lo": [0], "hi": [3]}],
        [{"arity": 3, "log": True, "lo": [0, 0, 0], "hi": [2, 2, 2]}],
        [{"arity": 1, "log": True, "lo": [1], "hi": [3]}, {"arity": 2, "log": False, "lo": [0, 2], "hi": [1, 5]}],
        [{"arity": 2, "log": True, "lo": [-2, 1], "hi": [-1, 2]}],
    ]
    jobs = []
    for k, vars_ in enumerate(layouts[:ctx.pick(2, 4)]):
        j = copy.deepcopy(base)
        j["kcfg"]["vars"] = vars_
        j.update({"variant": 50 + k, "repeat": 2, "islands": 1, "algo": "sade"})
        if len(vars_) >= 2 and k % 2 == 0:
            j["extra"] = dict(j.get("extra") or {}, collide=True)
        jobs.append(j)
    return jobs


def check_dispatch(ctx):
    """C01 in calibration mode: every fitness evaluation runs the pipeline exactly once per
    target/input pair."""
    traces = eval_traces(ctx, fams=("layouts",))
    ctx.cov["replayed_cases"] += len(traces)
    validate(ctx, traces, [strip_eval(t, "C01") for t in traces], "calib", "C01")


def check_isolation(ctx):
    """C06 in calibration mode: every evaluation starts from the caller's state; the caller's
    objects are unchanged; fitness of a decision vector does not depend on evaluation order."""
    traces = check.pmap(calib.calib_job, full_jobs(ctx, ctx.pick(2, 10)), chunksize=1)
    ctx.cov["replayed_cases"] += len(traces)
    for t in traces:
        mems = [m for e in t["events"] if e["e"] == "cand" for m in e["mems"]]
        if any(m != 5 for m in mems):
            ctx.violation("calib.state-leak", f"a fitness evaluation started from detector memory {sorted(set(mems))} "
                          "instead of the caller's 5", t["case"], {})
        if not t["meta"].get("user_unchanged", True):
            ctx.violation("calib.user-objects", f"the caller's objects changed: {t['meta']['before']} -> {t['meta']['after']}",
                          t["case"], {})
    # order independence of fitness(x)
    ev = eval_traces(ctx, fams=("layouts",))[: ctx.pick(20, 100)]
    jobs = []
    for t in ev:
        j = copy.deepcopy(t["case"]["job"])
        j["xs"] = list(reversed(j["xs"])) + j["xs"]
        jobs.append(j)
    again = check.pmap(calib.eval_job, jobs, chunksize=4)
    for a, b in zip(ev, again):
        fa = {tuple(e["x"]): e["fitness"] for e in a["events"] if e["e"] == "eval"}
        for e in b["events"]:
            if e["e"] == "eval" and fa.get(tuple(e["x"])) != e["fitness"]:
                ctx.violation("calib.order", f"fitness({e['x']}) = {e['fitness']} after other evaluations but "
                              f"{fa.get(tuple(e['x']))} when evaluated first", b["case"], {})
                break
    validate(ctx, again, [strip_eval(t, "C11") for t in again], "calib_order", "C06")


def check_failures(ctx):
    """C09 in calibration mode: a fault during the initial population and during evolution."""
    jobs = []
    base = full_jobs(ctx, ctx.pick(3, 10), islands=2, algo="sade")
    for k, j in enumerate(base):
        npairs = len(j["kcfg"]["pairs"])
        init = 8 * 2 * npairs                       # model calls of the initial populations
        for phase, n in (("initial", max(1, init // 3)), ("evolution", init + 3 * npairs + 1)):
            jj = copy.deepcopy(j)
            exc = ["ValueError", "KeyError", "ZeroDivisionError", "ProbeError"][(k + len(phase)) % 4]
            jj["extra"] = {"fault": n, "exc": exc, "msg": f"calibration fault {phase} {k}"}
            jj["phase"] = phase
            jobs.append(jj)
    traces = check.pmap(calib.calib_job, jobs, chunksize=1)
    ctx.cov["replayed_cases"] += len(traces)
    stripped = []
    for t, j in zip(traces, jobs):
        t["fault"] = j["extra"]["fault"]
        for e in t["events"]:
            if e["e"] == "failed":
                e["msgok"] = bool(j["extra"]["msg"] in e["msg"])
            if e["e"] == "done":
                e["ncalls"] = t["meta"]["nevals"] * len(t["kcfg"]["pairs"])
        rank_fitness(t)
        stripped.append(strip_calib(t, "C09"))
    ctx.notes["calibration_faults_surfaced"] = sum(1 for t in traces if any(e["e"] == "failed" for e in t["events"]))
    validate(ctx, traces, stripped, "calib_faults", "C09")


def _digest(meta):
    return hashlib.sha1(json.dumps([meta.get("champions"), meta.get("champion_x")]).encode()).hexdigest()[:12]


def check_parallel(ctx):
    """C07 in calibration mode: for fixed seeds the outcome does not depend on the scheduler,
    the number of workers, or the order in which islands finish being created."""
    base = full_jobs(ctx, ctx.pick(2, 8), algo="sade")
    jobs = []
    for j in base:
        j["islands"] = 3
        # Named deviation DEV_AsyncMigration: with a connected topology pygmo migrates individuals between the
        # island threads asynchronously, and the outcome of two identical runs differs (established on the
        # unchanged tree: ring, 3 islands, fixed seeds, same scheduler -> three different champion histories in
        # eight runs).  The statement speaks about the number of workers and the creation order of the islands,
        # which can only be decided where the optimisation itself is repeatable: unconnected archipelagos.
        j["topology"] = "unconnected"
        for sch, w, delay in ((None, None, 0.0), ("synchronous", None, 0.0), ("threads", 1, 0.0), ("threads", 4, 0.02),
                              ("threads", 16, 0.02)):
            jj = copy.deepcopy(j)
            jj["scheduler"], jj["workers"] = sch, w
            if delay:
                jj["extra"] = {"delay": delay}
            jobs.append(jj)
    traces = check.pmap(calib.calib_job, jobs, chunksize=1)
    ctx.cov["replayed_cases"] += len(traces)
    for k in range(0, len(traces), 5):
        ref = traces[k]
        for t in traces[k:k + 5]:
            if t["meta"].get("simulated") not in (None, "ok"):
                ctx.violation("calib.parallel.simulated", f"simulated data returned by the calibration under scheduler "
                              f"{t['case']['job'].get('scheduler')}/{t['case']['job'].get('workers')} (model delays "
                              f"{t['case']['job'].get('extra')}): {t['meta']['simulated']}", t["case"],
                              {"scheduler": t["case"]["job"].get("scheduler")})
        for t in traces[k + 1:k + 5]:
            if _digest(t["meta"]) != _digest(ref["meta"]):
                ctx.violation("calib.parallel", f"calibration with fixed seeds gives champions {t['meta'].get('champions')} "
                              f"under scheduler {t['case']['job'].get('scheduler')}/{t['case']['job'].get('workers')} "
                              f"(model delays {t['case']['job'].get('extra')}) but {ref['meta'].get('champions')} by default",
                              t["case"], {"scheduler": t["case"]["job"].get("scheduler")})


def check_seeded(ctx):
    """C04 in calibration mode: pygmo seed + pipeline seed make a stochastic calibration
    reproducible whatever the prior generator state, and leave the generator untouched."""
    import numpy as np

    from harness import seed as S
    jobs = full_jobs(ctx, ctx.pick(2, 6), algo="sade", extra={"noise": True}, pipeline_seed=17, islands=1)
    for j in jobs:
        seeded_case(ctx, j)


def seeded_case(ctx, j):
    import numpy as np

    from harness import seed as S
    if True:
        events = []
        key = "calibration|" + json.dumps(j["kcfg"]["vars"])
        S._ORIG["seed"](4000 + j["variant"])
        S.outside(events, j["variant"])
        for rep in range(2):
            events.append({"e": "begin", "key": key, "tok": S.state_digest()})
            tr = calib.calib_job(j)
            events.append({"e": "end", "key": key, "tok": S.state_digest(), "out": _digest(tr["meta"]),
                           "raised": not any(e["e"] == "done" for e in tr["events"])})
            S.outside(events, j["variant"] + rep + 1)
        ctx.cov["replayed_cases"] += 2
        from harness.drivers import C04
        C04.validate(ctx, [{"events": events, "case": {"kind": "calibration", "job": dict(j, mode="calibration")}}],
                     f"calib{j['variant']}")


def replay(ctx, payload):
    case = payload["case"]
    if case["kind"] == "eval":
        tr = calib.eval_job(case["job"])
        print(json.dumps(tr["events"], indent=0)[:3000])
        validate(ctx, [tr], [strip_eval(tr, ctx.prop if ctx.prop in EVAL_FIELDS else "C11")], "replay", ctx.prop)
    else:
        tr = calib.calib_job(case["job"])
        tr["fault"] = (case["job"].get("extra") or {}).get("fault", -1)
        print(json.dumps(tr["events"][-6:], indent=0)[:3000], tr["meta"])
        rank_fitness(tr)
        validate(ctx, [tr], [strip_calib(tr, ctx.prop)], "replay", ctx.prop)
    return ctx.finish()
