"""Calibration parts of C01 / C06 / C07 / C09 (filled in by the calibration driver)."""


def check_dispatch(ctx):
    return


def check_failures(ctx):
    return


def check_parallel(ctx):
    return


def replay(ctx, payload):
    raise NotImplementedError
