"""C03 - the returned result is a faithful, complete record of every step."""

from __future__ import annotations

import copy

from harness import px
from harness.drivers import _pipeline as P

IMG = ["uint8", "uint16", "uint32", "uint64"]
FLT = ["float16", "float32", "float64"]


def safe_fdt(cfg, fdt):
    """float16 resolves level + ramp/8 exactly only below 128: fall back to float32 when the
    configuration can accumulate more than that in one bucket."""
    if fdt != "float16":
        return fdt
    n = len(cfg["times"])
    worst = 0
    for b in ("photon", "pixel", "signal"):
        tot = sum(m["base"] + n for g in cfg["pipe"] for m in g if m["kind"] in ("add", "set", "cset") and m["b"] == b)
        if b == "pixel" and cfg["nd"]:
            tot *= n
        worst = max(worst, tot + max(cfg["prior"].get(b, 0), 0))
    return "float16" if worst < 120 else "float32"


def debug_clause(ctx, traces):
    """Debug records, after each model, the buckets this model changed (observed before/after
    states of consecutive probe calls vs the recorded /intermediate nodes)."""
    for tr in traces:
        rec = tr.get("debug_changed")
        if rec is None or tr["events"][-1]["e"] != "done":
            continue
        if (tr["meta"].get("extra") or {}).get("photon3d"):
            continue
        calls = [e for e in tr["events"] if e["e"] == "call"]
        res = tr["events"][-1]["result"]
        nd = tr["cfg"]["nd"]
        for j, c in enumerate(calls):
            k = c["clock"]["count"]
            if j + 1 < len(calls) and calls[j + 1]["clock"]["count"] == k:
                after = calls[j + 1]["seen"]
            else:
                # last call of the step: its own effect, from the configured model (the result
                # slice of an empty bucket is not a reliable observation)
                after = dict(c["seen"])
                mdl = next(mm for mm in tr["cfg"]["pipe"][c["g"] - 1] if mm["name"] == c["name"])
                act = mdl["mask"] == -1 or (k < 30 and (mdl["mask"] >> k) & 1)
                if mdl["kind"] == "set" and act and mdl["b"] in after:
                    after[mdl["b"]] = mdl["base"] + k
                elif mdl["kind"] == "cset" and act and mdl["b"] in after:
                    after[mdl["b"]] = mdl["base"]
                elif mdl["kind"] == "add" and act and mdl["b"] in after:
                    after[mdl["b"]] = max(after[mdl["b"]], 0) + mdl["base"] + k
                elif mdl["kind"] == "padd" and act:
                    after["charge"] = max(after["charge"], 0) + mdl["base"] + k
            exp = {b: after[b] for b in px.ARRAY_BUCKETS
                   if after[b] != c["seen"][b] and after[b] != px.EMPTY}
            got = dict(rec.get(f"{k}/{c['g']}/{c['name']}", {}))
            first_of_step = j == 0 or calls[j - 1]["clock"]["count"] != k
            case = {"kind": "exposure", "cfg": tr["cfg"], "meta": tr["meta"]}
            if "pixel" in got and "pixel" not in exp and got["pixel"] == 0 and first_of_step \
                    and k >= 1 and not nd and c["seen"]["pixel"] == 0:
                ctx.violation("debug.pixel-reset-attributed",
                              f"debug node of {c['name']} (first model of step {k}) records pixel=0 although the "
                              "model did not change the pixel bucket (the per-step reset did)", case,
                              {"destructive": True, "first_model_of_step": True, "bucket": "pixel",
                               "recorded_level": 0})
                got.pop("pixel")
            if got != exp:
                ctx.violation("debug.changed", f"debug node of {c['name']} at step {k} records {got}, the model "
                              f"changed {exp}", case, {})

def case_info(trace, sig):
    """Matching information for recorded findings (known_findings.json)."""
    meta = trace.get("meta", {})
    return {"wavelength_grid_moves": bool((meta.get("extra") or {}).get("photon3d_shift")),
            "debug": bool(meta.get("debug")), "hier": bool(meta.get("hier")), "session": bool(meta.get("session"))}


def session_debug(ctx, traces):
    """Debug record of every run of a session: exactly the models this run executed, at this run's times
    (nothing of an earlier run on the same detector)."""
    for tr in traces:
        for k, r in enumerate(tr.get("debug_runs") or []):
            nodes = sorted(map(tuple, r["nodes"]))
            calls = sorted(map(tuple, r["calls"]))
            case = {"kind": "exposure", "cfg": tr["cfg"], "meta": tr["meta"]}
            if nodes != calls:
                extra = [n for n in nodes if n not in calls]
                ctx.violation("debug.session", f"run {k} of a session: the debug record lists models {extra[:6]} that this run did "
                              f"not execute (executed: {calls[:6]}...)", case, {"run": k})
                break
            want = dict((c, a) for c, a in r["abs"])
            bad = [(i, t) for i, t in r["times"] if i in want and want[i] != t]
            if bad:
                ctx.violation("debug.session", f"run {k} of a session: debug node time_idx_{bad[0][0]} announces time {bad[0][1]} "
                              f"ticks, the readout was at {want[bad[0][0]]} ticks", case, {"run": k})
                break


def run(ctx):
    _, cases = P.family(ctx, "writers", note="seven writers (photon charge pixel signal image scene data) x per-step "
                                              "write masks x steps x mode, dirty prior")
    ctx.cov["exhaustive"] = True
    jobs = []
    for k, cfg in enumerate(cases):
        c = copy.deepcopy(cfg)
        c["imgdt"] = IMG[k % 4]
        if k % 3 == 1:      # writers that leave the same content at every readout
            for grp in c["pipe"]:
                for mdl in grp:
                    if mdl["kind"] == "set" and (mdl["b"] != "photon" or k % 2):
                        mdl["kind"] = "cset"
        extra = {"fdt": safe_fdt(c, FLT[k % 3])}
        if k % 7 == 3:
            extra["photon3d"] = 3
        if k % 7 == 3 and k % 2 == 0:
            # the wavelength grid moves from readout to readout (with debug only in the hierarchical layout: the
            # flat layout of the pinned tree refuses debug records whose wavelength grids differ)
            extra["photon3d_shift"] = True
        if k % 14 == 3 or (k % 7 == 3 and any(m["kind"] in ("set", "cset") and m["b"] == "photon" and m["mask"] != 0 and m["enabled"]
                                               for g in c["pipe"] for m in g) and k % 2):
            extra["photon3d_coords"] = True
        jobs.append(dict(cfg=c, hier=bool(k % 2), extra=extra, debug=False))
        if extra.get("photon3d_shift"):
            jobs.append(dict(cfg=c, hier=False, extra=extra, debug=True))      # (known finding `debug.flat-wavelength`)
        jobs.append(dict(cfg=c, hier=bool((k + 1) % 2), extra=extra, debug=True,
                         construction="yaml" if k % 3 == 0 else "python"))
    traces = P.record(jobs)
    for t, j in zip(traces, jobs):
        t["meta"]["extra"] = j.get("extra")
    ctx.cov["replayed_cases"] += len(traces)
    ctx.sample({"cfg_times": jobs[5]["cfg"]["times"], "events_tail": traces[5]["events"][-1:]})
    debug_clause(ctx, traces)
    P.validate(ctx, traces, "replay", known=case_info)

    n = ctx.pick(120, 2500)
    jobs = []
    for k in range(n):
        cfg = P.random_cfg(ctx.rng, max_models=3, max_steps=ctx.pick(6, 12), kinds=("set", "cset", "cset", "add", "padd", "obs"), p_img=0.9)
        jobs.append(dict(cfg=cfg, hier=ctx.rng.random() < 0.5, debug=ctx.rng.random() < 0.4,
                         extra={"fdt": safe_fdt(cfg, ctx.rng.choice(FLT))}, kind=ctx.rng.choice(["ccd", "cmos"])))
    traces = P.record(jobs)
    for t, j in zip(traces, jobs):
        t["meta"]["extra"] = j.get("extra")
    ctx.cov["recorded_random"] += len(traces)
    debug_clause(ctx, traces)
    P.validate(ctx, traces, "random")
    # sessions: every run on re-used objects returns its own faithful record
    traces = P.sessions(ctx, [], ctx.pick(40, 800), kinds=("obs", "set", "cset", "add"))
    P.validate(ctx, traces, "sessions")
    session_debug(ctx, traces)
    from harness import hooks
    hooks.check(ctx)
    ctx.assumptions += ["bucket arrays are level + fixed ramp; the result is read back through its y/x/time labels",
                        "a bucket empty at the end of a step yields an unconstrained slice (the code stores NaN)"]


def replay(ctx, payload):
    case = payload["case"]
    if case.get("kind") == "hooktrace":
        from harness import hooks
        return hooks.replay(ctx, payload)
    from harness import runner
    meta = case.get("meta", {})
    if meta.get("session"):
        tr = runner.record_session(cfg=case["cfg"], ops=meta["session"], construction=meta.get("construction", "python"),
                                   debug=meta.get("debug", False), hier=meta.get("hier", False),
                                   kind=meta.get("detector", "ccd"))
        session_debug(ctx, [tr])
        P.validate(ctx, [tr], "replay", known=case_info)
        return ctx.finish()
    tr = runner.record_exposure(cfg=case["cfg"], construction=meta.get("construction", "python"),
                                debug=meta.get("debug", False), hier=meta.get("hier", False),
                                extra=meta.get("extra"), kind=meta.get("detector", "ccd"))
    tr["meta"]["extra"] = meta.get("extra")
    debug_clause(ctx, [tr])
    P.validate(ctx, [tr], "replay", known=case_info)
    return ctx.finish()
