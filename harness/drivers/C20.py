"""C20 - input files are read and placed on the detector faithfully."""

from __future__ import annotations

import json

from harness import check, inputs, tlc


def strip(t):
    return {"events": [{k: v for k, v in e.items() if k not in ("why", "route", "shape", "values")} for e in t["events"]]}


def corrupt(t):
    for e in t["events"]:
        if e["e"] == "place" and e["out"] == "ok":
            e["matrix"][0][0] += 1
            return t
        if e["e"] == "load":
            e["got"] += 1
            return t
        if e["e"] == "format":
            e["same"] = False
            return t
    return None


def validate(ctx, traces, label):
    rejected = ctx.validate("InputsTrace", [strip(t) for t in traces], label=label, corrupt=corrupt)
    if not rejected:
        return
    idx = [k for k, _ in rejected][:60]
    diag = tlc.diagnose("InputsTrace", [strip(traces[k]) for k in idx], tag=f"C20_{label}")
    seen = set()
    for pos, k in enumerate(idx, start=1):
        l, exp = diag.get(pos, (dict(rejected)[k], {}))
        exp = exp if isinstance(exp, dict) else {}
        ev = traces[k]["events"][l - 1]
        if ev["e"] == "place":
            sig = "placement"
            info = {"route": ev.get("route"), "align": ev["align"], "out": ev["out"]}
            text = (f"{ev.get('route')}: input {ev['h']}x{ev['w']} on detector {ev['H']}x{ev['W']} offset ({ev['oy']},{ev['ox']}) "
                    f"align '{ev['align']}' -> {ev['out']} {ev.get('matrix')} {ev.get('why', '')}; expected {exp.get('expected')}")
            key = (sig, ev.get("route"), ev["align"] != "", ev["out"])
        elif ev["e"] == "load":
            sig = "stale-load"
            hist = [e for e in traces[k]["events"][: l]]
            info = {"after_rewrite": any(e["e"] == "write" and e["path"] == ev["path"] for e in hist),
                    "loaded_before": any(e["e"] == "load" and e["path"] == ev["path"] for e in hist[:-1])}
            text = (f"a model loaded file '{ev['path']}' and saw version {ev['got']} but the file holds version "
                    f"{(exp.get('disk') or {}).get(ev['path'])} (history {[(e['e'], e['path']) for e in hist]})")
            key = (sig,)
        else:
            sig = "format"
            info = {"fmt": ev.get("fmt")}
            text = f"array {ev.get('shape')} ({ev.get('values')}) written as {ev.get('fmt')} was not read back identically: {ev.get('why')}"
            key = (sig, ev.get("fmt"))
        if key in seen:
            continue
        seen.add(key)
        ctx.violation(sig, text, traces[k]["case"], info)


def run(ctx):
    ctx.model_check("MC_Inputs", f"MC_Inputs_{ctx.tier}.cfg",
                    note="cache histories of rewrites and loads over two paths; ASSUME PlacementLaws: every input shape, "
                         "detector shape (1..3 x 1..3) and offset (-3..3)^2")
    out = tlc.workdir() / "export_C20.json"
    r2 = tlc.run_tlc("MC_InputsExport", f"MC_Inputs_{ctx.tier}.cfg", tag="C20_export", env={"OUT_FILE": str(out)},
                     workers=1, timeout=600)
    if not out.exists():
        raise tlc.MachineryError(f"export failed:\n{r2.output[-1500:]}")
    cases = json.loads(out.read_text())
    out.unlink()
    ctx.cov["exhaustive"] = True
    traces = check.pmap(inputs.place_job, cases, chunksize=20)
    ctx.cov["replayed_cases"] += len(traces)
    ctx.sample({"case": cases[7], "events": traces[7]["events"][:1]})
    validate(ctx, traces, "placement")
    # cache histories: every sequence of <= 5 operations over two files (write, load)
    rng = ctx.rng
    jobs = []
    import itertools
    ops = [("write", "a"), ("load", "a"), ("write", "b"), ("load", "b")]
    for n in (2, 3, 4):
        for seq in itertools.product(ops, repeat=n):
            if sum(1 for o in seq if o[0] == "load") == 0:
                continue
            jobs.append({"ops": list(seq), "ext": ["npy", "fits", "txt"][len(jobs) % 3], "variant": len(jobs)})
    jobs = jobs[:: ctx.pick(4, 1)]
    traces = check.pmap(inputs.cache_job, jobs, chunksize=10)
    ctx.cov["replayed_cases"] += len(traces)
    validate(ctx, traces, "cache")
    traces = check.pmap(inputs.format_job, [{"seed": ctx.seed * 10000 + k} for k in range(ctx.pick(40, 600))], chunksize=4)
    ctx.cov["recorded_random"] += len(traces)
    validate(ctx, traces, "formats")
    ctx.assumptions += ["input cells hold distinct integers so a misplaced, mirrored or transposed placement is visible",
                        "format fidelity is a round trip of generated contents through numpy/astropy writers and pyxel's "
                        "readers (the specification has no model of the formats)"]


def replay(ctx, payload):
    c = payload["case"]
    tr = {"place": lambda: inputs.place_job(c["case"]), "cache": lambda: inputs.cache_job(c["job"]),
          "format": lambda: inputs.format_job(c["job"])}[c["kind"]]()
    print(json.dumps(tr["events"], indent=0)[:2500])
    validate(ctx, [tr], "replay")
    return ctx.finish()
