"""C06 - parameter runs are isolated from each other and from the caller's objects."""

from __future__ import annotations

from harness.drivers import _obs as O
from harness.drivers import C05


def not_zip_case(c):
    """sequential + dask + >= 2 enabled parameters runs another space altogether (known finding of
    C05/C07); it says nothing about isolation and is left to those checks."""
    return not (c["mode"] == "sequential" and c["dask"] and sum(1 for p in c["params"] if p["enabled"]) >= 2)


def readout_sweeps(ctx):
    """Sweeps over the readout times themselves (`observation.readout.times` x an illumination level, both
    declaration orders, sequential loop and dask): the caller's detector, pipeline and Readout are the same,
    field by field, after the observation (PyxelObservation: no action writes `user`)."""
    from harness import check, obs
    jobs = []
    for order in ("level-first", "times-first"):
        for dask_, sch, w in ((False, None, None), (True, "synchronous", None), (True, "threads", 3)):
            jobs.append({"bases": [1, 3], "times": [2048, 4096, 1024], "order": order, "dask": dask_, "scheduler": sch,
                         "workers": w, "base_time": 0.5})
            if not ctx.quick:
                jobs.append({"bases": [2], "times": [512, 8192], "order": order, "dask": dask_, "scheduler": sch,
                             "workers": w, "base_time": 3.0})
    for r in check.pmap(obs.flux_sweep_job, jobs, chunksize=1):
        ctx.cov["recorded_random"] += 1
        if r["user_after"] is None:
            continue        # the sweep failed: C17 reports it
        diff = sorted(k for k in r["user_before"] if r["user_before"][k] != r["user_after"][k])
        if diff:
            ctx.violation("user.mutated", f"sweep over the readout times changed the caller's {diff}: "
                          f"{ {k: r['user_before'][k] for k in diff} } -> { {k: r['user_after'][k] for k in diff} } ({r['job']})",
                          {"kind": "readout-sweep", "job": r["job"]}, {"fields": diff})


def run(ctx):
    _, cases = O.family(ctx)
    ctx.cov["exhaustive"] = True
    jobs = []
    for k, c in enumerate(cases):
        if (c["fault"] and not c["dask"] and k % 3) or not not_zip_case(c):
            continue
        # every third observation is run twice on the same objects (a session: Rerun)
        jobs.append(dict(ocfg=c, variant=k, scheduler=("synchronous", "threads")[k % 2] if c["dask"] else None,
                         workers=2 if c["dask"] and k % 2 else None,
                         # (not after a failure: threads that a failed parallel observation leaves behind may start
                         # their run while the second pass is being recorded)
                         repeat=2 if (k % 3 == 0 and not c["fault"]) else 1))
    traces = O.record(jobs)
    ctx.cov["replayed_cases"] += len(traces)
    ctx.sample({"ocfg": traces[2]["ocfg"], "events": [e for e in traces[2]["events"] if e["e"] in ("run", "user_after")][:4]})
    O.validate(ctx, traces, "replay")
    C05.big_spaces(ctx, prop="C06", sched=("synchronous", "threads"), keep=not_zip_case)
    from harness.drivers import _calib
    _calib.check_isolation(ctx)
    readout_sweeps(ctx)
    ctx.assumptions += ["stateful probes: a counter kept in detector._memory and a list argument mutated in place; every "
                        "run must see the caller's original state", "the caller's detector, pipeline and readout are "
                        "compared field by field before/after (never with pyxel's ==)"]


def replay(ctx, payload):
    if payload["case"].get("kind") == "readout-sweep":
        from harness import obs
        r = obs.flux_sweep_job(payload["case"]["job"])
        if r["user_after"] is not None and r["user_before"] != r["user_after"]:
            diff = sorted(k for k in r["user_before"] if r["user_before"][k] != r["user_after"][k])
            ctx.violation("user.mutated", f"sweep over the readout times changed the caller's {diff}",
                          payload["case"], {"fields": diff})
        return ctx.finish()
    if payload["case"].get("kind") in ("eval", "calib"):
        from harness.drivers import _calib
        return _calib.replay(ctx, payload)
    return O.replay(ctx, payload)
