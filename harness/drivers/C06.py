"""C06 - parameter runs are isolated from each other and from the caller's objects."""

from __future__ import annotations

from harness.drivers import _obs as O
from harness.drivers import C05


def not_zip_case(c):
    """sequential + dask + >= 2 enabled parameters runs another space altogether (known finding of
    C05/C07); it says nothing about isolation and is left to those checks."""
    return not (c["mode"] == "sequential" and c["dask"] and sum(1 for p in c["params"] if p["enabled"]) >= 2)


def run(ctx):
    _, cases = O.family(ctx)
    ctx.cov["exhaustive"] = True
    jobs = []
    for k, c in enumerate(cases):
        if (c["fault"] and not c["dask"] and k % 3) or not not_zip_case(c):
            continue
        # every third observation is run twice on the same objects (a session: Rerun)
        jobs.append(dict(ocfg=c, variant=k, scheduler=("synchronous", "threads")[k % 2] if c["dask"] else None,
                         workers=2 if c["dask"] and k % 2 else None,
                         # (not after a failure: threads that a failed parallel observation leaves behind may start
                         # their run while the second pass is being recorded)
                         repeat=2 if (k % 3 == 0 and not c["fault"]) else 1))
    traces = O.record(jobs)
    ctx.cov["replayed_cases"] += len(traces)
    ctx.sample({"ocfg": traces[2]["ocfg"], "events": [e for e in traces[2]["events"] if e["e"] in ("run", "user_after")][:4]})
    O.validate(ctx, traces, "replay")
    C05.big_spaces(ctx, prop="C06", sched=("synchronous", "threads"), keep=not_zip_case)
    from harness.drivers import _calib
    _calib.check_isolation(ctx)
    ctx.assumptions += ["stateful probes: a counter kept in detector._memory and a list argument mutated in place; every "
                        "run must see the caller's original state", "the caller's detector, pipeline and readout are "
                        "compared field by field before/after (never with pyxel's ==)"]


def replay(ctx, payload):
    if payload["case"].get("kind") in ("eval", "calib"):
        from harness.drivers import _calib
        return _calib.replay(ctx, payload)
    return O.replay(ctx, payload)
