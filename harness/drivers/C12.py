"""C12 - a configuration file means what it says, and nonsense is refused."""

from __future__ import annotations

import copy
import json

import yaml

from harness import check, px, settings, tlc
from harness.drivers import C08
from harness.drivers import _pipeline as P

KINDS = ["ccd", "cmos", "mkid", "apd"]


def load_doc_job(job):
    """Load a document with nm running modes and nd detectors; report ok / rejected."""
    import pyxel
    nm, nd, k = job["nm"], job["nd"], job["k"]
    base = yaml.safe_load(settings.yaml_doc("ccd"))
    modes = {"exposure": {"readout": {"times": [1.0]}},
             "observation": {"parameters": [{"key": "detector.environment.temperature", "values": [100, 200]}]},
             "calibration": None}
    dets = {f"{kd}_detector": yaml.safe_load(settings.yaml_doc(kd))[f"{kd}_detector"] for kd in KINDS}
    doc = {"pipeline": base["pipeline"]}
    mnames = [["exposure", "observation"], ["observation", "exposure"], ["exposure"], ["observation"]]
    for name in (mnames[k % 2][:nm] if nm == 2 else mnames[2 + k % 2][:nm]):
        doc[name] = modes[name]
    dnames = list(dets)
    for j in range(nd):
        name = dnames[(k + j) % 4]
        doc[name] = dets[name]
    out, why = "ok", ""
    try:
        conf = pyxel.loads(yaml.safe_dump(doc, sort_keys=False))
        _ = conf.detector, conf.running_mode, conf.pipeline
    except Exception as e:
        out, why = "rejected", f"{type(e).__name__}: {str(e)[:80]}"
    return {"leaves": [], "disabled": [], "tree0": [], "case": {"kind": "load", "job": job},
            "events": [{"path": "load", "nmodes": nm, "ndets": nd, "out": out, "why": why}]}


def flatten(prefix, obj, out):
    if isinstance(obj, dict):
        for k, v in obj.items():
            flatten(prefix + [str(k)], v, out)
    else:
        out.append((prefix, obj))


def faithful_job(job):
    """Generate a document, load it, and report for every setting written in it the value found
    in the loaded objects."""
    import random

    import pyxel
    rng = random.Random(job["seed"])
    kind = rng.choice(KINDS)
    sec = {"geometry": {"row": rng.randint(1, 9), "col": rng.randint(1, 9), "total_thickness": rng.choice([0.0, 10.5, 10000.0]),
                        "pixel_vert_size": rng.choice([0.5, 10.0, 1000.0]), "pixel_horz_size": rng.choice([0.25, 12.0])},
           "environment": {"temperature": rng.choice([0.5, 77.0, 300, 1000.0])},
           "characteristics": {"quantum_efficiency": rng.choice([0.0, 0.5, 1.0]),
                               "full_well_capacity": rng.choice([0.0, 2000.5, 1e7]),
                               "adc_bit_resolution": rng.choice([4, 8, 16, 64]),
                               "adc_voltage_range": [0.0, rng.choice([5.0, 10.0])]}}
    if kind != "apd":
        sec["characteristics"].update({"charge_to_volt_conversion": rng.choice([1e-3, 0.5, 100.0]),
                                       "pre_amplification": rng.choice([0.0, 4.5, 10000.0])})
    else:
        sec["characteristics"].update(settings.APD_EXTRA)
    argvals = [1, -2.5, "abc", "a b", True, None, [1, 2, 3], [[1, 2], [3]], {"k": 1}, 1e-9]
    pipe = {}
    for g in rng.sample(list(px.GROUPS), rng.randint(1, 4)):
        pipe[g] = [{"name": f"m{j}", "func": "harness.settings.snap", "enabled": rng.random() < 0.7,
                    "arguments": {f"a{q}": rng.choice(argvals) for q in range(rng.randint(0, 3))}}
                   for j in range(rng.randint(1, 3))]
    times_text = rng.choice(["numpy.arange(1, 4)", "numpy.linspace(1, 2, 3)", "[1, 2, 4]", ""])
    times = times_text if times_text else [0.5, 1.5]
    readout = {"times": times, "start_time": rng.choice([0.0, 0.25]), "non_destructive": rng.random() < 0.5}
    mode = rng.choice(["exposure", "observation"])
    if mode == "exposure":
        mdoc = {"readout": readout, "pipeline_seed": rng.choice([None, 7])}
    else:
        vals_text = rng.choice(["numpy.arange(1, 4)", "range(1, 4)", "numpy.array([0.5, 2.0])", ""])
        mdoc = {"readout": readout, "mode": rng.choice(["product", "sequential"]), "with_dask": rng.random() < 0.5,
                "parameters": [{"key": "detector.environment.temperature", "values": vals_text or [11, 12],
                                "enabled": rng.random() < 0.8}]}
    doc = {mode: mdoc, f"{kind}_detector": sec, "pipeline": pipe}
    text = yaml.safe_dump(doc, sort_keys=False)
    conf = pyxel.loads(text)
    found = []
    det = conf.detector
    for s in ("geometry", "environment", "characteristics"):
        for f, v in sec[s].items():
            try:
                got = getattr(getattr(det, s), f)
            except Exception as e:      # a getter that refuses to return what the file said
                got = f"RAISES {type(e).__name__}: {e}"
            found.append((["detector", s, f], v, list(got) if isinstance(got, tuple) else got))
    for g, models in pipe.items():
        grp = getattr(conf.pipeline, g)
        for j, m in enumerate(models):
            real = grp.models[j]
            found.append((["pipeline", g, m["name"], "name"], m["name"], real.name))
            found.append((["pipeline", g, m["name"], "func"], m["func"], real._func_name))
            found.append((["pipeline", g, m["name"], "enabled"], m["enabled"], real.enabled))
            for a, v in m["arguments"].items():
                found.append((["pipeline", g, m["name"], "arguments", a], v, real.arguments[a]))
            found.append((["pipeline", g, m["name"], "nargs"], len(m["arguments"]), len(real.arguments)))
    rm = conf.running_mode
    found.append(([mode, "readout", "times"], times, [float(x) for x in rm.readout.times]))
    found.append(([mode, "readout", "start_time"], readout["start_time"], rm.readout.start_time))
    found.append(([mode, "readout", "non_destructive"], readout["non_destructive"], rm.readout.non_destructive))
    if mode == "exposure":
        found.append(([mode, "pipeline_seed"], mdoc["pipeline_seed"], rm.pipeline_seed))
    else:
        p0 = rm.parameter_mode.parameters[0]
        found.append(([mode, "parameters", "0", "key"], p0.key if False else mdoc["parameters"][0]["key"], p0.key))
        found.append(([mode, "parameters", "0", "values"], mdoc["parameters"][0]["values"], list(p0)))
        found.append(([mode, "parameters", "0", "enabled"], mdoc["parameters"][0]["enabled"], p0.enabled))
        found.append(([mode, "with_dask"], mdoc["with_dask"], rm.with_dask))
        found.append(([mode, "mode"], mdoc["mode"], type(rm.parameter_mode).__name__.replace("Mode", "").lower()))
    events, leaves, tree0 = [], [], []
    exprs = ("numpy.arange(1, 4)", "numpy.linspace(1, 2, 3)", "[1, 2, 4]", "range(1, 4)", "numpy.array([0.5, 2.0])")
    for key, written, got in found:
        leaves.append(key)
        tree0.append({"key": key, "val": {"k": "txt", "c": "None"}})
        is_expr = isinstance(written, str) and written in exprs
        ev = {"path": "yaml", "key": key, "text": written if is_expr else "",
              "val": settings.canon(written) if not is_expr else {"k": "txt", "c": ""}, "out": "ok",
              "changed": [] if (not is_expr and written is None) else [key], "stored": settings.canon(got), "ran": False}
        events.append(ev)
    return {"leaves": leaves, "disabled": [], "tree0": tree0, "events": events,
            "case": {"kind": "faithful", "seed": job["seed"], "doc": text}}


# documented ranges (statement of C12 / constructors), copied here only to pick values just outside and inside them
LIM = {"total_thickness": (0, 10000), "pixel_vert_size": (0, 1000), "pixel_horz_size": (0, 1000),
       "quantum_efficiency": (0, 1), "charge_to_volt_conversion": (0, 100), "pre_amplification": (0, 10000),
       "full_well_capacity": (0, 10000000), "adc_bit_resolution": (4, 64)}
CROSS = {"geometry": ["total_thickness", "pixel_vert_size", "pixel_horz_size"],
         "characteristics": ["quantum_efficiency", "charge_to_volt_conversion", "pre_amplification", "full_well_capacity",
                             "adc_bit_resolution"]}


def cross_field_jobs(ctx):
    """The limits of one quantity do not depend on its neighbours: a constructor call / document that gives a
    second setting of the same section (absent, or at the low end of its range) together with the one under test."""
    jobs = []
    n = 0
    for section, names in CROSS.items():
        for f in names:
            lo, hi = LIM[f]
            fvals = [hi * 10, hi + 1, lo + 1 if f == "adc_bit_resolution" else (lo + hi) / 4]
            for g in names:
                if g == f:
                    continue
                for gv in (None, LIM[g][0]):
                    for fv in fvals:
                        for path in ("construct", "yaml"):
                            n += 1
                            kinds = KINDS if ctx.tier == "thorough" else [KINDS[n % 4]]
                            for kind in kinds:
                                if f not in settings.fields(kind)[section] or g not in settings.fields(kind)[section]:
                                    continue
                                jobs.append({"kind": kind, "ops": [{
                                    "op": "set", "path": path, "key": ["detector", section, f], "val": settings.canon(fv),
                                    "with": {"key": ["detector", section, g], "val": settings.canon(gv)}}]})
    return jobs


def run(ctx):
    _, cases = ctx.model_check("MC_Settings", f"MC_Settings_{ctx.tier}.cfg", export=True,
                               note="every (path, field, grid value around the documented limits) and every count of "
                                    "running modes / detectors in a document")
    ctx.cov["exhaustive"] = True
    jobs = []
    loads = []
    for k, hist in enumerate(cases):
        if any(op["op"] == "load" for op in hist):
            for op in hist:
                if op["op"] == "load":
                    v = op["val"]["n"]
                    loads.append({"nm": v // 10, "nd": v % 10, "k": k})
            continue
        if any(op["key"] not in settings.leaves_of("ccd") or op["key"][0] != "detector" for op in hist):
            continue
        for kind in KINDS:
            ok = all(op["key"] in settings.leaves_of(kind) for op in hist)
            # named deviation: geometry.row/col cannot be swept (containers keep their size)
            ok = ok and not any(op["path"] == "sweep" and op["key"][-1] in ("row", "col") for op in hist)
            # same deviation through a history: row/col changed on the caller's detector, then a pipeline runs
            ok = ok and not any(a["path"] in ("override", "setattr") and a["key"][-1] in ("row", "col") and b["path"] == "sweep"
                                for i, a in enumerate(hist) for b in hist[i + 1:])
            if ok:
                jobs.append({"kind": kind, "ops": copy.deepcopy(hist)})
    jobs += cross_field_jobs(ctx)
    traces = check.pmap(settings.run_history, jobs, chunksize=20)
    ctx.cov["replayed_cases"] += len(traces)
    ctx.sample({"op": jobs[3]["ops"], "kind": jobs[3]["kind"], "event": traces[3]["events"]})
    C08.validate(ctx, traces, "limits", "C12")
    # documents with 0..2 running modes x 0..2 detectors
    lt = check.pmap(load_doc_job, loads * ctx.pick(2, 8), chunksize=4)
    ctx.cov["replayed_cases"] += len(lt)
    rejected = ctx.validate("SettingsTrace", [C08.strip(t) for t in lt], label="load")
    for k, _ in rejected:
        ev = lt[k]["events"][0]
        ctx.violation("load.count", f"a document with {ev['nmodes']} running mode(s) and {ev['ndets']} detector(s) was "
                      f"{ev['out']} ({ev['why']})", lt[k]["case"], {"nmodes": ev["nmodes"], "ndets": ev["ndets"]})
    # generated documents: every setting equals the value written
    ft = check.pmap(faithful_job, [{"seed": ctx.seed * 100000 + k} for k in range(ctx.pick(150, 3000))], chunksize=10)
    ctx.cov["recorded_random"] += len(ft)
    ctx.sample({"document": ft[0]["case"]["doc"][:600]})
    rejected = ctx.validate("SettingsTrace", [C08.strip(t) for t in ft], label="faithful",
                            corrupt=lambda tr: (tr["events"][0].__setitem__("stored", {"k": "txt", "c": "zz"}) or tr))
    if rejected:
        diag = tlc.diagnose("SettingsTrace", [C08.strip(ft[k]) for k, _ in rejected[:30]], tag="C12_faithful")
        for pos, (k, _) in enumerate(rejected[:30], start=1):
            l, exp = diag.get(pos, (1, {}))
            ev = ft[k]["events"][l - 1]
            ctx.violation("yaml.faithful", f"setting {'.'.join(ev['key'])} was written as {ev['text'] or ev['val']} but the "
                          f"loaded object holds {ev['stored']}", ft[k]["case"], {"field": ev["key"][-1]})
    # the same configuration from YAML and from Python objects gives the same result
    jobs = []
    for k in range(ctx.pick(40, 600)):
        cfg = P.random_cfg(ctx.rng, max_models=2, max_steps=3, kinds=("obs", "set", "add"))
        jobs.append(dict(cfg=cfg, construction="python", hier=True))
        jobs.append(dict(cfg=cfg, construction="yaml", yaml_order="shuffled", seed=k, hier=True))
    traces = P.record(jobs)
    ctx.cov["recorded_random"] += len(traces)
    P.validate(ctx, traces, "samerun", "C03")
    ctx.assumptions += ["the table of documented ranges is written in PyxelSettings.tla from the statement and from the "
                        "ranges the constructors announce; what is checked is that every other path enforces the same range",
                        "values are rationals on a grid around each limit"]


def replay(ctx, payload):
    case = payload["case"]
    if case.get("kind") == "load":
        tr = load_doc_job(case["job"])
        print(tr["events"])
        return 1 if ctx.validate("SettingsTrace", [C08.strip(tr)], label="replay") else 0
    if case.get("kind") == "faithful":
        tr = faithful_job({"seed": case["seed"]})
        return 1 if ctx.validate("SettingsTrace", [C08.strip(tr)], label="replay") else 0
    if case.get("kind") == "exposure":
        return P.replay_case(ctx, payload)
    return C08.replay(ctx, payload)
