"""Running modes other than a plain exposure: every run of an observation (and every fitness
evaluation of a calibration) is the same exposure machine.  Used by C01, C09 and C07."""

from __future__ import annotations

import json

from harness.drivers import _obs as O

EXCS = ["ValueError", "KeyError", "RuntimeError", "ZeroDivisionError", "ProbeError", "StopIteration", "AssertionError"]


def check_modes_dispatch(ctx):
    """C01 in observation mode: in every run the enabled models execute once, in order, the
    disabled one never (run events carry what each probe received; a call of the disabled
    model or a missing call makes the effective vector undecodable)."""
    _, cases = O.family(ctx, note="observation family (C01: dispatch inside every run)")
    cases = [c for c in cases if not c["fault"] and O.not_zip_case(c)][: ctx.pick(60, 400)]
    jobs = [dict(ocfg=c, variant=k, scheduler="synchronous" if c["dask"] else None) for k, c in enumerate(cases)]
    traces = O.record(jobs)
    ctx.cov["replayed_cases"] += len(traces)
    ctx.notes["observation_runs_checked"] = sum(1 for t in traces for e in t["events"] if e["e"] == "run")
    O.validate(ctx, traces, "modes", "C01")
    from harness.drivers import _calib
    _calib.check_dispatch(ctx)


def check_modes_failures(ctx):
    """C09 in observation mode: a fault in any run, sequentially and under dask schedulers."""
    _, cases = O.family(ctx, note="observation family (C09: a fault in every position of the space)")
    cases = [c for c in cases if c["fault"] and O.not_zip_case(c)]
    jobs = []
    for k, c in enumerate(cases):
        if c["dask"]:
            sch, w = [("synchronous", None), ("threads", 2), ("threads", 8)][k % 3]
        else:
            sch, w = None, None
        jobs.append(dict(ocfg=c, variant=k, scheduler=sch, workers=w, exc=EXCS[k % len(EXCS)]))
    traces = O.record(jobs)
    # every exception class on every execution path (sequential loop, dask synchronous, dask threads), on
    # configurations whose fault is known to fire
    firing = {False: [], True: []}
    for k, t in enumerate(traces):
        if t["events"][-1]["e"] == "failed":
            firing[bool(t["ocfg"]["dask"])].append(t["ocfg"])
        else:
            # the sampled fault vector is not an element of the space: move it onto a run that was executed
            effs = [e["eff"] for e in t["events"] if e["e"] == "run" and 7 not in e.get("eff", [7])]
            if effs:
                firing[bool(t["ocfg"]["dask"])].append(dict(t["ocfg"], fault=effs[k % len(effs)]))
    jobs2 = []
    for n, exc in enumerate(EXCS):
        for path, (dask_, sch, w) in enumerate(((False, None, None), (True, "synchronous", None), (True, "threads", 2))):
            pool = firing[dask_]
            if pool:
                jobs2.append(dict(ocfg=pool[(3 * n + path) % len(pool)], variant=1000 + 10 * n + path, scheduler=sch,
                                  workers=w, exc=exc))
    traces += O.record(jobs2)
    ctx.cov["replayed_cases"] += len(traces)
    nfail = sum(1 for t in traces if t["events"][-1]["e"] == "failed")
    ctx.notes["observation_faults_surfaced"] = nfail
    ctx.sample({"ocfg": traces[0]["ocfg"], "events": traces[0]["events"][-2:]})
    O.validate(ctx, traces, "modes", "C09")
    from harness.drivers import _calib
    _calib.check_failures(ctx)


def check_parallel_extras(ctx):
    from harness.drivers import _calib
    _calib.check_parallel(ctx)


def replay(ctx, payload):
    if payload["case"].get("kind") == "observation":
        return O.replay(ctx, payload)
    from harness.drivers import _calib
    return _calib.replay(ctx, payload)
