"""Running modes other than a plain exposure (filled in by the observation/calibration drivers)."""


def check_modes_dispatch(ctx):
    return


def check_modes_failures(ctx):
    return


def replay(ctx, payload):
    raise NotImplementedError
