"""C18 - a detector saved to a file and loaded back is the same detector."""

from __future__ import annotations

import json

from harness import check, storage, tlc
from harness.drivers import _pipeline as P


def strip(t):
    return {"det": t["det"], "events": [{k: v for k, v in e.items() if k != "why"} for e in t["events"]]}


def corrupt(t):
    for e in t["events"]:
        if e["e"] == "load":
            e["got"]["pixel"] = 77
            return t
    return None


def validate(ctx, traces, label):
    rejected = ctx.validate("StorageTrace", [strip(t) for t in traces], label=label, corrupt=corrupt)
    if not rejected:
        return
    idx = [k for k, _ in rejected][:60]
    diag = tlc.diagnose("StorageTrace", [strip(traces[k]) for k in idx], tag=f"C18_{label}")
    seen = set()
    for pos, k in enumerate(idx, start=1):
        l, exp = diag.get(pos, (dict(rejected)[k], {}))
        exp = exp if isinstance(exp, dict) else {}
        ev = traces[k]["events"][l - 1]
        want = exp.get("want") or {}
        diff = {c: (ev.get("got", {}).get(c), want.get(c)) for c in storage.CONTAINERS if ev.get("got", {}).get(c) != want.get(c)}
        sig = "roundtrip." + ("data" if diff else "properties")
        key = (sig, tuple(sorted(diff)), traces[k]["det"]["type"])
        if key in seen:
            continue
        seen.add(key)
        ctx.violation(sig, f"{traces[k]['det']['type']} detector ({traces[k]['det']['props']} properties) saved and loaded: "
                      f"containers loaded/saved differ {diff}; type ok {ev.get('typeok')}, properties ok {ev.get('propsok')} "
                      f"{ev.get('why')}", traces[k]["case"], {"type": traces[k]["det"]["type"], "containers": sorted(diff)})


def run(ctx):
    ctx.model_check("MC_Storage", f"MC_Storage_{ctx.tier}.cfg",
                    note="every subset of initialised containers x 4 detector types x minimal/full properties; save, "
                         "modify in memory, load")
    out = tlc.workdir() / "export_C18.json"
    r2 = tlc.run_tlc("MC_StorageExport", f"MC_Storage_{ctx.tier}.cfg", tag="C18_export", env={"OUT_FILE": str(out)},
                     workers=1, timeout=600)
    if not out.exists():
        raise tlc.MachineryError(f"export failed:\n{r2.output[-1500:]}")
    cases = json.loads(out.read_text())
    out.unlink()
    ctx.cov["exhaustive"] = True
    traces = check.pmap(storage.roundtrip_job, [{"det": c, "variant": k} for k, c in enumerate(cases)], chunksize=8)
    ctx.cov["replayed_cases"] += len(traces)
    ctx.sample({"det": cases[5], "events": traces[5]["events"]})
    ctx.notes["hdf5_backend"] = "h5py is not installed in this sandbox: only ASDF is exercised"
    validate(ctx, traces, "roundtrip")
    # the load-detector model at every pipeline position: later models and the result see the file's data
    _, pcases = P.family(ctx, "storage", note="load_detector at every position of a pipeline x steps x mode x full/partial file")
    jobs = [dict(cfg=c, real=0, kind="ccd") for c in pcases]
    ptraces = P.record(jobs)
    ctx.cov["replayed_cases"] += len(ptraces)
    P.validate(ctx, ptraces, "loaddet", "C17")
    # sessions: the file is rewritten (same name) between two runs of the same pipeline in one process
    partial = dict(pcases[0]["stored"], photon=-1, signal=-1, scene=-1)
    other = {b: (v + 20 if v >= 0 else v) for b, v in pcases[0]["stored"].items()}
    nodata = dict(pcases[0]["stored"], data=-1, image=-1)   # the next file carries no processed data: the old tree must go
    sjobs = []
    for k, c in enumerate(pcases):
        nxt = (other if c["stored"] != other else partial, partial, nodata)[k % 3]
        sjobs.append(dict(cfg=c, real=0, kind="ccd",
                          ops=[["run"], ["rewrite", nxt], ["run"], ["rewrite", c["stored"]], ["peek", "repr"], ["run"]]))
    straces = check.pmap(P._session_job, sjobs, chunksize=4)
    ctx.cov["replayed_cases"] += len(straces)
    ctx.notes["rewrite_sessions"] = len(straces)
    P.validate(ctx, straces, "rewrite", "C17")
    ctx.assumptions += ["containers are compared through the projection (levels, cluster table fields, wavelength coordinate, "
                        "scene and data tokens), never with pyxel's ==", "only the ASDF backend is available here"]


def replay(ctx, payload):
    c = payload["case"]
    if c.get("kind") == "roundtrip":
        tr = storage.roundtrip_job(c["job"])
        print(json.dumps(tr["events"], indent=0)[:2500])
        validate(ctx, [tr], "replay")
        return ctx.finish()
    return P.replay_case(ctx, payload)
