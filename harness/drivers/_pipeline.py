"""Shared driver code for the properties decided on PyxelPipeline (C01 C02 C03 C09 C17)."""

from __future__ import annotations

import copy
import json

from harness import check, runner, tlc

CORE_ACTIONS = ["Validate", "InitialEmpty", "BeginStep", "NextGroup", "RunModel", "EndStep", "Finish"]


def family(ctx, fam: str, required=None, note: str = ""):
    """Model-check one configuration family and export its replay sample."""
    tier = ctx.tier
    res, _ = ctx.model_check("MC_Pipeline", f"MC_Pipeline_{fam}_{tier}.cfg",
                             required_actions=required or CORE_ACTIONS, note=note)
    out = tlc.workdir() / f"export_{ctx.prop}_{fam}.json"
    if out.exists():
        out.unlink()
    r2 = tlc.run_tlc("MC_PipelineExport", f"MC_Pipeline_{fam}_{tier}_export.cfg",
                     tag=f"{ctx.prop}_{fam}_export", env={"OUT_FILE": str(out)}, workers=1, timeout=600)
    if not out.exists():
        raise tlc.MachineryError(f"export of family {fam} failed:\n{r2.output[-2000:]}")
    cases = json.loads(out.read_text())
    out.unlink()
    return res, cases


def _job(kw):
    return runner.record_exposure(**kw)


def record(jobs: list) -> list:
    """Run record_exposure for each kwargs dict, in the process pool."""
    return check.pmap(_job, jobs, chunksize=4)


FIELDS = {
    "C01": {"call": ("e", "step", "g", "name", "args"), "done": ("e",), "failed": ("e",), "rejected": ("e",)},
    "C02": {"call": ("e", "step", "g", "name", "clock", "seen"), "done": ("e",), "failed": ("e",), "rejected": ("e",)},
    "C03": {"call": ("e", "step", "g", "name", "seen"), "done": ("e", "result"), "failed": ("e",), "rejected": ("e",)},
    "C09": {"call": ("e", "step", "g", "name"), "done": ("e",),
            "failed": ("e", "exc", "msg", "g", "name", "noresult"), "rejected": ("e",)},
    "C17": {"call": ("e", "step", "g", "name", "clock", "seen"), "done": ("e", "result"), "failed": ("e",), "rejected": ("e",)},
}


SESSION_FIELDS = {"toggle": ("e", "g", "m"), "setargs": ("e", "g", "m", "args"),
                  "resched": ("e", "times", "start", "nd"), "restart": ("e",), "rewrite": ("e", "stored")}


def strip(trace: dict, prop: str) -> dict:
    sel = dict(FIELDS[prop])
    sel.update(SESSION_FIELDS)
    evs = []
    for ev in trace["events"]:
        keep = sel.get(ev["e"])
        if keep is None:
            evs.append({"e": ev["e"]})
            continue
        e = {k: ev[k] for k in keep if k in ev}
        if "result" in e:
            e["result"] = {k: v for k, v in e["result"].items() if k != "layout"}
        evs.append(e)
    out = {"cfg": trace["cfg"], "events": evs}
    if trace.get("meta", {}).get("real") is not None:
        out["real"] = True
    return out


def corrupt_for(prop: str):
    """Negative control: perturb one recorded field the property's check relies on."""
    def fn(tr):
        for ev in tr["events"]:
            if prop == "C01" and ev["e"] == "call":
                ev["args"] = ev["args"] + "~"
                return tr
            if prop in ("C02", "C17") and ev["e"] == "call":
                ev["clock"]["abs"] += 1
                return tr
            if prop == "C03" and ev["e"] == "done":
                r = ev["result"]
                for b in ("pixel", "charge", "photon"):
                    for sl in r.get(b, []):
                        if sl["level"] >= 0:
                            sl["level"] += 1
                            return tr
            if prop == "C09" and ev["e"] == "failed" and ev.get("name"):
                ev["msg"] = ev["msg"] + "~"
                return tr
        return None
    return fn


def classify(ev: dict | None, exp) -> tuple:
    """(signature, text) for the first unmatched event against the expected record."""
    if ev is None:
        return "trace.incomplete", f"the run stopped early; specification expected {exp}"
    if not isinstance(exp, dict):
        return "trace.unexplained", f"event {ev} is not explained by the specification ({exp})"
    if ev["e"] == "call":
        if "nocall" in exp:
            return "call.extra", f"a model executed after the run was {exp['nocall']}: {brief(ev)}"
        for k, sig in (("step", "call.order"), ("g", "call.order"), ("name", "call.order"),
                       ("args", "call.args"), ("clock", "clock"), ("seen", "buckets")):
            if k in ev and k in exp and ev[k] != _norm(exp[k]):
                if k == "seen":
                    diff = {b: (ev[k][b], exp[k][b]) for b in ev[k] if ev[k][b] != exp[k].get(b)}
                    return sig, f"buckets seen by {ev['name']} at step {ev['step']}: observed/expected {diff}"
                if k == "clock":
                    diff = {b: (ev[k][b], exp[k][b]) for b in ev[k] if ev[k][b] != exp[k].get(b)}
                    return sig, f"clock seen by {ev['name']} at step {ev['step']}: observed/expected {diff}"
                return sig, f"observed call {brief(ev)} but specification expected {brief(exp)}"
        return "call.mismatch", f"observed {brief(ev)}, expected {brief(exp)}"
    if "step" in exp and "name" in exp:
        return "call.missing", f"the run ended ({ev['e']}) but specification expected the call {brief(exp)}"
    if ev["e"] == "done":
        if exp.get("pc") != "done":
            return "result.unexpected", f"a result was returned but the specification ends in {exp.get('pc')} ({exp.get('error')})"
        return "result.values", f"returned {json.dumps(ev.get('result'))[:400]} expected {json.dumps(exp.get('result'))[:400]}"
    if ev["e"] == "failed":
        if exp.get("pc") != "failed":
            return "failure.unexpected", f"the run raised {ev.get('exc')}: {str(ev.get('msg'))[:200]} but the specification ends in {exp.get('pc')}"
        return "failure.identity", f"raised {brief(ev)} expected {exp.get('error')}"
    if ev["e"] == "rejected":
        return "schedule.rejected", f"the run was refused before any model ran ({ev.get('why')}) but the specification ends in {exp.get('pc')}"
    return "trace.unexplained", f"event {brief(ev)} expected {exp}"


def _norm(v):
    return v


def brief(ev):
    if not isinstance(ev, dict):
        return str(ev)
    return json.dumps({k: v for k, v in ev.items() if k in ("e", "step", "g", "name", "args", "exc", "msg")})


def validate(ctx, traces: list, label: str, prop: str | None = None, known=None):
    """Validate recorded traces of this property; turn rejections into violations.
    `known(trace, signature) -> info dict` lets a driver attach matching info."""
    prop = prop or ctx.prop
    for tr in traces:
        if any(ev["e"] == "harness-error" for ev in tr["events"]):
            raise tlc.MachineryError(f"harness error while recording: {tr['events']}")
    stripped = [strip(t, prop) for t in traces]
    rejected = ctx.validate("PipelineTrace", stripped, label=label, corrupt=corrupt_for(prop))
    if not rejected:
        return []
    out = []
    allidx = [k for k, _ in rejected]
    for c in range(0, len(allidx), 50):          # every rejected trace is diagnosed, 50 per TLC run
        idx = allidx[c:c + 50]
        diag = tlc.diagnose("PipelineTrace", [stripped[k] for k in idx], tag=f"{ctx.prop}_{label}")
        for pos, k in enumerate(idx, start=1):
            l, exp = diag.get(pos, (dict(rejected)[k], None))
            evs = stripped[k]["events"]
            ev = evs[l - 1] if 1 <= l <= len(evs) else None
            sig, text = classify(ev, exp)
            info = {"meta": traces[k].get("meta", {}), "event_index": l}
            if known:
                info.update(known(traces[k], sig) or {})
            ctx.violation(sig, text + f" [{traces[k].get('meta')}]",
                          {"kind": "exposure", "cfg": traces[k]["cfg"], "meta": traces[k].get("meta", {})}, info)
            out.append((k, sig))
    return out


def _session_job(kw):
    return runner.record_session(**kw)


def random_session(rng, cfg: dict, nruns: int = 3) -> list:
    """Operations of a session on `cfg`: runs separated by reconfigurations and by
    operations that must have no effect (repr, iteration, describe, dir)."""
    where = [(g + 1, m + 1) for g, grp in enumerate(cfg["pipe"]) for m in range(len(grp))]
    ops = []
    cur_times, cur_start = list(cfg["times"]), cfg.get("start", 0)
    if rng.random() < 0.3:
        ops.append(["peek", rng.choice(["repr", "iter", "describe", "dir"])])
    ops.append(["run"])
    for _ in range(nruns - 1):
        for _ in range(rng.randint(1, 4)):
            r = rng.random()
            if r < 0.45 and where:
                g, m = rng.choice(where)
                ops.append(["toggle", g, m, rng.choice(["attr", "getattr", "get_model"])])
            elif r < 0.6 and where:
                g, m = rng.choice(where)
                ops.append(["setargs", g, m, rng.choice(["zz", "a", "tag2"])])
            elif r < 0.8:
                n = rng.randint(1, 4)
                pts = sorted(rng.sample(range(1, 40), n))
                start = rng.choice([0, 0, -3, pts[0] - 1])
                if rng.random() < 0.35:
                    # the same readout times once more, from another start time (and possibly the other mode)
                    pts = list(cur_times)
                    start = rng.choice([x for x in (0, -3, pts[0] - 1, pts[0] - 2) if x != cur_start and x < pts[0]] or [cur_start])
                ops.append(["resched", pts, start, rng.random() < 0.5])
                cur_times, cur_start = pts, start
            else:
                ops.append(["peek", rng.choice(["repr", "iter", "describe", "dir"])])
        ops.append(["run"])
    return ops


def toggles_between(a: dict, b: dict) -> list:
    """Reconfiguration that turns configuration `a` into `b` (same models, different flags / schedule)."""
    ops = []
    for g, (ga, gb) in enumerate(zip(a["pipe"], b["pipe"])):
        for m, (ma, mb) in enumerate(zip(ga, gb)):
            if ma["enabled"] != mb["enabled"]:
                ops.append(["toggle", g + 1, m + 1, ["attr", "getattr", "get_model"][(g + m) % 3]])
    if (a["times"], a["start"], a["nd"]) != (b["times"], b["start"], b["nd"]):
        ops.append(["resched", b["times"], b["start"], b["nd"]])
    return ops


def same_models(a: dict, b: dict) -> bool:
    return [[m["name"] for m in g] for g in a["pipe"]] == [[m["name"] for m in g] for g in b["pipe"]]


def sessions(ctx, family_cases: list, nrandom: int, kinds=("obs", "set", "add"), **kw) -> list:
    """Record sessions: (1) every ordered pair of family configurations over the same models -
    run the first, reconfigure into the second, run again, and back; (2) random sessions."""
    jobs = []
    for a in family_cases:
        for b in family_cases:
            if a is not b and same_models(a, b):
                ops = [["run"]] + toggles_between(a, b) + [["peek", "iter"], ["run"]] + toggles_between(b, a) + [["run"]]
                jobs.append(dict(cfg=a, ops=ops, **kw))
    jobs = jobs[:ctx.pick(150, 2000)]
    for k in range(nrandom):
        cfg = random_cfg(ctx.rng, max_models=3, max_steps=4, kinds=kinds)
        jobs.append(dict(cfg=cfg, ops=random_session(ctx.rng, cfg, ctx.rng.randint(2, 4)),
                         debug=ctx.rng.random() < 0.2, hier=ctx.rng.random() < 0.5,
                         construction=ctx.rng.choice(["python", "python", "yaml"])))
    traces = check.pmap(_session_job, jobs, chunksize=4)
    ctx.cov["recorded_sessions"] = ctx.cov.get("recorded_sessions", 0) + len(traces)
    return traces


def replay_case(ctx, payload: dict) -> int:
    case = payload["case"]
    meta = case.get("meta", {})
    if meta.get("session"):
        tr = runner.record_session(cfg=case["cfg"], ops=meta["session"], construction=meta.get("construction", "python"),
                                   debug=meta.get("debug", False), hier=meta.get("hier", False),
                                   kind=meta.get("detector", "ccd"))
        print(json.dumps(tr["events"], indent=1)[:4000])
        validate(ctx, [tr], "replay")
        return ctx.finish()
    kw = {"cfg": case["cfg"], "construction": meta.get("construction", "python"),
          "debug": meta.get("debug", False), "hier": meta.get("hier", False),
          "readout_how": meta.get("readout", "list"), "yaml_order": meta.get("yaml_order", "canonical"),
          "kind": meta.get("detector", "ccd"), "real": meta.get("real"), "extra": meta.get("extra")}
    tr = runner.record_exposure(**kw)
    print(json.dumps(tr["events"], indent=1)[:4000])
    validate(ctx, [tr], "replay")
    return ctx.finish()


# ---------------------------------------------------------------------------
# random configurations far outside the model-checking bounds

_ARG_VALUES = [0, 1, -3, 2.5, 1e-3, "abc", "a b", True, None, [1, 2, 3], [[1, 2], [3]], [], "1.5", {"k": 1}]


def random_args(rng) -> str:
    n = rng.choice([0, 1, 1, 2, 3])
    if n == 0:
        return rng.choice(["a", "x1", "tag"])
    d = {}
    for _ in range(n):
        d[rng.choice(["alpha", "beta", "gamma", "level", "opt", "vec"])] = rng.choice(_ARG_VALUES)
    return json.dumps(d, sort_keys=True)


def random_cfg(rng, max_models: int = 4, max_steps: int = 6, kinds=("obs", "set", "add"),
               big_ticks: bool = False, p_img: float = 0.85, prior_p: float = 0.3) -> dict:
    n = rng.randint(1, max_steps)
    hi = (1 << 20) if big_ticks else 40
    pts = sorted(rng.sample(range(1, hi), n))
    start = rng.choice([0, 0, -3, pts[0] - 1]) if pts[0] > 0 else -5
    if start >= pts[0]:
        start = pts[0] - 1
    pipe = []
    uid = 0
    buckets_by_kind = {"set": ["photon", "pixel", "signal", "scene", "data"],
                       "cset": ["photon", "pixel", "signal", "signal", "scene", "data"],
                       "add": ["photon", "charge", "pixel", "signal"], "padd": ["charge"]}
    npadd = 0
    for k in range(10):
        models = []
        if rng.random() < 0.6:
            for _ in range(rng.randint(0, max_models)):
                uid += 1
                kind = rng.choice(kinds)
                if kind == "padd":
                    # the library recompiles its numba kernel on every read of a cluster frame:
                    # keep cluster-adding models rare and their runs short
                    npadd += 1
                    if npadd > 1 or n > 5:
                        kind = "add"
                b = rng.choice(buckets_by_kind.get(kind, ["photon"]))
                models.append({"name": f"m{uid}", "enabled": rng.random() < 0.7, "args": random_args(rng),
                               "kind": kind, "b": b, "base": rng.randint(1, 9) + 10 * (uid % 7),
                               "mask": rng.randint(0, (1 << min(n, 20)) - 1) if rng.random() < 0.5 else -1})
        pipe.append(models)
    if rng.random() < p_img:
        pipe[8].append({"name": "imgw", "enabled": True, "args": "i",
                        "kind": "cset" if "cset" in kinds and rng.random() < 0.5 else "set", "b": "image",
                        "base": 60, "mask": -1})
    prior = {b: -1 for b in ("photon", "charge", "pixel", "signal", "image", "scene", "data")}
    if rng.random() < prior_p:
        for b in prior:
            if rng.random() < 0.6:
                prior[b] = rng.randint(90, 99)
    return {"pipe": pipe, "times": pts, "start": start, "nd": rng.random() < 0.5, "prior": prior,
            "imgdt": rng.choice(["uint8", "uint16", "uint32", "uint64"])}
