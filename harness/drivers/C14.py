"""C14 - charge is accounted identically as arrays and as positioned clusters."""

from __future__ import annotations

import json
from concurrent.futures import ThreadPoolExecutor

from harness import charge, tlc

GEOM = (2, 3, 4, 6)


def run_all(cases, geom, nproc=16):
    wd = str(tlc.fresh_dir("charge_batches"))
    chunks = [cases[k::nproc] for k in range(nproc)]
    with ThreadPoolExecutor(nproc) as ex:
        outs = list(ex.map(lambda ch: charge.run_batch(ch, geom, wd), chunks))
    res = [None] * len(cases)
    for k, out in enumerate(outs):
        res[k::nproc] = out
    return res


def cfg_for(geom):
    r, c, sv, sh = geom
    d = tlc.workdir() / "charge_cfg"
    d.mkdir(exist_ok=True)
    f = d / f"ChargeTrace_{r}x{c}_{sv}_{sh}.cfg"
    f.write_text((tlc.SPEC / "ChargeTrace.cfg").read_text()
                 .replace("R = 2", f"R = {r}").replace("C = 3", f"C = {c}")
                 .replace("SV = 4", f"SV = {sv}").replace("SH = 6", f"SH = {sh}"))
    return str(f)


def corrupt(tr):
    for ev in tr["events"]:
        if ev["op"] == "read" and ev.get("reported"):
            ev["reported"][0] += 1
            return tr
    return None


def validate(ctx, cases, results, geom, label):
    r, c, sv, sh = geom
    crashed = [k for k, evs in enumerate(results) if any(ev["out"] == "crash" for ev in evs)]
    for k in crashed[:5]:
        why = next(ev.get("why") for ev in results[k] if ev["out"] == "crash")
        outside = any((x["ver"] < 0 or x["ver"] >= r * sv or x["hor"] < 0 or x["hor"] >= c * sh)
                      for o in cases[k] if o["op"] == "add_clusters" for x in o["arg"])
        ctx.violation("memory", f"history {json.dumps(cases[k])[:300]} kills the process / corrupts memory: {why}",
                      {"kind": "charge", "ops": cases[k], "geom": list(geom)},
                      {"outside_cluster": outside, "out": "crash"})
    keep = [k for k in range(len(cases)) if k not in set(crashed)]
    cases = [cases[k] for k in keep]
    results = [results[k] for k in keep]
    traces = [{"events": [{k: v for k, v in ev.items() if k in ("op", "arg", "out", "reported")} for ev in evs]}
              for evs in results]
    rejected = ctx.validate("ChargeTrace", traces, label=label, corrupt=corrupt, cfg=cfg_for(geom))
    if not rejected:
        return
    idx = [k for k, _ in rejected][:120]
    diag = tlc.diagnose("ChargeTrace", [traces[k] for k in idx], tag=f"C14_{label}", cfg=cfg_for(geom))
    seen = set()
    r, c, sv, sh = geom
    for pos, k in enumerate(idx, start=1):
        l, exp = diag.get(pos, (dict(rejected)[k], None))
        evs = results[k]
        ev = evs[l - 1] if 1 <= l <= len(evs) else {"op": "?", "out": "?"}
        outside = any((x["ver"] < 0 or x["ver"] >= r * sv or x["hor"] < 0 or x["hor"] >= c * sh)
                      for o in cases[k] if o["op"] == "add_clusters" for x in o["arg"])
        removed = any(o["op"] == "remove" for o in cases[k][: l])
        info = {"outside_cluster": outside, "after_remove": removed, "out": ev["out"]}
        if ev["out"] == "crash":
            sig = "memory"
            text = f"history {cases[k]} kills the process / corrupts memory: {ev.get('why')}"
        elif ev["out"] == "error":
            sig = "error"
            text = f"operation {ev['op']} failed: {ev.get('why')} in history {cases[k]}"
        else:
            sig = "accounting"
            text = (f"read reports {ev.get('reported')} but the charge added since the last reset is "
                    f"{(exp or {}).get('acc')} (history {json.dumps(cases[k])[:400]})")
        key = (sig, outside, removed)
        if key in seen and len(seen) > 6:
            continue
        seen.add(key)
        ctx.violation(sig, text, {"kind": "charge", "ops": cases[k], "geom": list(geom)}, info)


def random_history(rng, geom, n):
    r, c, sv, sh = geom
    ops = []
    for _ in range(n):
        op = rng.choice(["add_array", "add_clusters", "add_clusters", "read", "read", "remove", "reset"])
        if op == "add_array":
            arg = [rng.choice([0, 0, 1, 2, 5]) for _ in range(r * c)]
        elif op == "add_clusters":
            arg = []
            for _ in range(rng.randint(1, 4)):
                ver = rng.choice([-sv, -1, 0, 1, sv - 1, sv, sv + 1, r * sv - 1, r * sv, r * sv + 1, 3 * r * sv,
                                  rng.randint(0, r * sv - 1)])
                hor = rng.choice([-sh, -1, 0, 1, sh - 1, sh, c * sh - 1, c * sh, c * sh + 2, 5 * c * sh,
                                  rng.randint(0, c * sh - 1)])
                arg.append({"n": rng.randint(0, 3), "ver": ver, "hor": hor, "label": 0})
        elif op == "remove":
            arg = rng.choice([[], [0], [1], [0, 2], [5]])
        else:
            arg = []
        ops.append({"op": op, "arg": arg})
    ops.append({"op": "read", "arg": []})
    return ops


def directed_histories(geom):
    """Reads between partial removals (what was read before must not survive a removal), on charged clusters
    inside the area."""
    r, c, sv, sh = geom
    inside = [{"n": k + 1, "ver": ((k * 7) % r) * sv + sv // 2, "hor": ((k * 5) % c) * sh + sh // 2, "label": 0} for k in range(4)]
    out = []
    for i in range(3):
        for j in range(3):
            out.append([{"op": "add_clusters", "arg": inside[:3]}, {"op": "read", "arg": []}, {"op": "remove", "arg": [i]},
                        {"op": "read", "arg": []}, {"op": "remove", "arg": [j]}, {"op": "read", "arg": []}])
    out.append([{"op": "add_clusters", "arg": inside}, {"op": "read", "arg": []}, {"op": "remove", "arg": [0, 2]},
                {"op": "read", "arg": []}, {"op": "add_array", "arg": [1] * (r * c)}, {"op": "read", "arg": []}])
    out.append([{"op": "add_array", "arg": [2] * (r * c)}, {"op": "add_clusters", "arg": inside[:2]}, {"op": "read", "arg": []},
                {"op": "remove", "arg": [1]}, {"op": "read", "arg": []}, {"op": "remove", "arg": [0]}, {"op": "read", "arg": []}])
    out.append([{"op": "add_clusters", "arg": inside[:2]}, {"op": "read", "arg": []}, {"op": "read", "arg": []},
                {"op": "remove", "arg": [1]}, {"op": "read", "arg": []}, {"op": "reset", "arg": []}, {"op": "read", "arg": []}])
    # the same array OBJECT added again (harness.charge keeps one object per value list): a pattern P that a caller
    # keeps and adds at every step, with other additions, reads and resets in between
    P = [(k % 3) + 1 for k in range(r * c)]
    Q = [5 if k % 2 else 0 for k in range(r * c)]
    A, B, RD, RS = {"op": "add_array", "arg": P}, {"op": "add_array", "arg": Q}, {"op": "read", "arg": []}, {"op": "reset", "arg": []}
    out += [[A, B, A, RD], [A, A, A, RD], [A, B, RS, A, RD], [A, RD, B, RD, A, RD], [B, A, B, RD, RS, B, A, RD],
            [A, {"op": "add_clusters", "arg": inside[:2]}, A, RD, RS, A, B, A, RD]]
    return out


def run(ctx):
    res, cases = ctx.model_check("MC_Charge", f"MC_Charge_{ctx.tier}.cfg", export=True, timeout=1800,
                                 note="every history of MAXLEN operations over array additions, cluster additions at "
                                      "all position classes (centre, border, edge, negative, beyond), removals, reset, read")
    ctx.cov["exhaustive"] = True
    results = run_all(cases, GEOM)
    ctx.cov["replayed_cases"] += len(cases)
    ctx.sample({"history": cases[3], "events": results[3]})
    validate(ctx, cases, results, GEOM, "replay")
    for geom in [(2, 3, 4, 6), (1, 3, 5, 5), (3, 2, 10, 7)][: ctx.pick(2, 3)]:
        rnd = directed_histories(geom) + [random_history(ctx.rng, geom, ctx.rng.randint(2, 9)) for _ in range(ctx.pick(120, 3000))]
        results = run_all(rnd, geom)
        ctx.cov["recorded_random"] += len(rnd)
        validate(ctx, rnd, results, geom, f"random{geom[0]}x{geom[1]}")
    ctx.assumptions += ["'never corrupts memory' is observed as: the child process survives and a canary buffer is "
                        "intact; a silent out-of-bounds write into unused heap may go unseen",
                        "removal of clusters subtracts their contribution (the statement only speaks of additions)"]


def replay(ctx, payload):
    c = payload["case"]
    results = run_all([c["ops"]], tuple(c["geom"]), nproc=1)
    print(json.dumps(results[0], indent=0))
    validate(ctx, [c["ops"]], results, tuple(c["geom"]), "replay")
    return ctx.finish()
