"""C01 - enabled models run once per readout, in the fixed physical group order."""

from __future__ import annotations

from harness import check, runner
from harness.drivers import _pipeline as P
from harness.drivers import _modes


def variants(ctx, k: int):
    """Constructions / debug settings for the k-th replayed configuration."""
    out = [dict(construction="python"), dict(construction="yaml", yaml_order="reversed")]
    if k % 2 == 0:
        out.append(dict(construction="yaml", yaml_order="shuffled", seed=ctx.seed + k))
    if k % 3 == 0:
        out.append(dict(construction="python", debug=True))
    if k % 5 == 0:
        out.append(dict(construction="yaml", yaml_order="canonical", debug=True, hier=True))
    return out


def identity_and_debug(ctx, traces):
    """Clauses checked on the recording itself: every call of a run received the
    run's own detector; with debug on, the intermediate tree has one node per call."""
    for tr in traces:
        calls = [ev for ev in tr["events"] if ev["e"] == "call"]
        if any(ev.get("det", 0) != 0 for ev in calls):
            ctx.violation("call.detector", "a model received a different detector object than the run's",
                          {"kind": "exposure", "cfg": tr["cfg"], "meta": tr["meta"]}, {})
        nodes = tr.get("debug_nodes")
        if nodes is not None:
            want = sorted({(ev["clock"]["count"], ev["g"], ev["name"]) for ev in calls})
            if sorted(map(tuple, nodes)) != want:
                ctx.violation("debug.nodes", f"intermediate nodes {nodes} differ from executed models {want}",
                              {"kind": "exposure", "cfg": tr["cfg"], "meta": tr["meta"]}, {})


def run(ctx):
    _, sub = P.family(ctx, "subsets", note="every subset of the ten groups x steps")
    _, pairs = P.family(ctx, "pairs", required=P.CORE_ACTIONS + ["SkipDisabled"],
                        note="every pair of groups x 0..2 models x every enabled pattern x steps x mode")
    ctx.cov["exhaustive"] = True
    cases = [c for c in sub] + [c for c in pairs]
    jobs = []
    for k, cfg in enumerate(cases):
        for v in variants(ctx, k):
            jobs.append(dict(cfg=cfg, **v))
    traces = P.record(jobs)
    ctx.cov["replayed_cases"] += len(traces)
    ctx.sample({"replayed_cfg": cases[len(cases) // 2], "events": traces[len(traces) // 2]["events"][:3]})
    identity_and_debug(ctx, traces)
    P.validate(ctx, traces, "replay")

    # random pipelines far beyond the model-checking bounds
    n = ctx.pick(250, 3000)
    jobs = []
    for k in range(n):
        cfg = P.random_cfg(ctx.rng, kinds=("obs", "obs", "set", "add"))
        jobs.append(dict(cfg=cfg, **ctx.rng.choice(variants(ctx, k * 30))))
    traces = P.record(jobs)
    ctx.cov["recorded_random"] += len(traces)
    ctx.sample({"random_cfg": jobs[0]["cfg"]})
    identity_and_debug(ctx, traces)
    P.validate(ctx, traces, "random")

    # sessions: the same pipeline / detector objects run several times, reconfigured in between
    _, sess = P.family(ctx, "session", required=P.CORE_ACTIONS + ["SkipDisabled", "MCToggle", "MCSetArgs", "MCResched", "MCRestart"],
                       note="runs separated by Toggle / SetArgs / Reschedule of the same objects (every reachable "
                            "enabled pattern x schedule), all run invariants at every state")
    traces = P.sessions(ctx, sess, ctx.pick(60, 1500), kinds=("obs", "obs", "set", "add"))
    ctx.sample({"session_ops": traces[-1]["meta"]["session"]})
    P.validate(ctx, traces, "sessions")

    # second binding: runs of the real model library recorded through the hooks (repository tests, examples)
    from harness import hooks
    hooks.check(ctx)

    # the other running modes: every run of an observation / calibration is this machine
    _modes.check_modes_dispatch(ctx)
    ctx.assumptions += [
        "probe models observe the dispatch from inside (stack frame of ModelGroup.run gives the dispatching group)",
        "TLC's PyxelPipeline ExpectedCalls is the oracle; the ten group names are copied from the statement",
    ]


def replay(ctx, payload):
    if payload["case"].get("kind") == "hooktrace":
        from harness import hooks
        return hooks.replay(ctx, payload)
    if payload["case"].get("kind") != "exposure":
        return _modes.replay(ctx, payload)
    return P.replay_case(ctx, payload)
