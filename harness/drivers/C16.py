"""C16 - digitised images are bounded, monotone, saturating and never wrap."""

from __future__ import annotations

import json

from harness import adc, check, tlc


def strip(t):
    return {k: v for k, v in t.items() if k not in ("case", "raw")}


def corrupt(t):
    if t["kind"] == "law":
        t["codes"][-1] = [0, 0, 0, 0]
    else:
        t["codes"][len(t["codes"]) // 2] += 1
    return t


def describe(t):
    if t["kind"] == "law":
        raw = t["raw"]
        fs = 2 ** t["b"] - 1
        codes = raw["codes"]
        probs = []
        if any(c < 0 or c > fs for c in codes):
            k = next(i for i, c in enumerate(codes) if c < 0 or c > fs)
            probs.append(f"code {codes[k]} for {raw['vs'][k]} V is outside 0..{fs}")
        for i in range(len(codes) - 1):
            if codes[i] > codes[i + 1]:
                probs.append(f"not monotone: {raw['vs'][i]} V -> {codes[i]} but {raw['vs'][i + 1]} V -> {codes[i + 1]}")
                break
        if any(c != 0 for c in codes[: t["nlow"]]):
            probs.append("a voltage at or below the range minimum is not digitised to 0")
        if t["nhigh"] and any(c != fs for c in codes[-t["nhigh"]:]):
            k = next(i for i in range(len(codes) - t["nhigh"], len(codes)) if codes[i] != fs)
            probs.append(f"{raw['vs'][k]} V (at or above the range maximum) is digitised to {codes[k]}, full scale is {fs}")
        if t["width"] < t["b"]:
            probs.append(f"stored in {t['width']} bits")
        if not t["noisyeq"]:
            probs.append("the noisy converter with zero noise differs")
        return "; ".join(probs) or "law violated"
    bad = "codes differ from the specification"
    return bad


def validate(ctx, traces, label):
    rejected = ctx.validate("AdcTrace", [strip(t) for t in traces], label=label, corrupt=corrupt)
    seen = set()
    for k, _ in rejected:
        t = traces[k]
        job = t["case"]["job"]
        which = job.get("which", job.get("kind"))
        text = describe(t)
        sat = "full scale" in text or "outside" in text
        info = {"converter": which, "bits": t["b"], "bits_ge_54": t["b"] >= 54, "saturation": sat}
        sig = "adc." + which
        key = (sig, t["b"] >= 54, text.split(":")[0][:30])
        if key in seen:
            continue
        seen.add(key)
        ctx.violation(sig, f"{which} converter, {t['b']} bits, range {job.get('lo')}..{job.get('hi')}: {text}", t["case"], info)


def run(ctx):
    ctx.model_check("MC_Adc", f"MC_Adc_{ctx.tier}.cfg", required_actions=["SarStep"],
                    note="the binary-search state machine for every resolution MINB..MAXB and every voltage of the grid; "
                         "the quantiser laws (ASSUME QuantiserLaws) at every code transition")
    ctx.cov["exhaustive"] = True
    maxb = ctx.pick(9, 12)
    jobs = [{"kind": k, "b": b} for b in range(4, maxb + 1) for k in ("simple", "sar")]
    traces = check.pmap(adc.exact_job, jobs, chunksize=1)
    ctx.cov["replayed_cases"] += sum(len(t["vs"]) for t in traces)
    ctx.sample({"kind": traces[0]["kind"], "b": traces[0]["b"], "vs": traces[0]["vs"][:8], "codes": traces[0]["codes"][:8]})
    validate(ctx, traces, "exact")
    # law-only: every resolution 4..64, dyadic and non-dyadic ranges
    rng = ctx.rng
    jobs = []
    ranges = [(0.0, 4.096), (0.0, 5.0), (-1.0, 1.0), (0.5, 3.3), (0.0, 10.0), (1e-3, 2.5)]
    for b in range(4, 65):
        for which in ("simple", "sar"):
            for r in range(ctx.pick(2, 8)):
                lo, hi = ranges[(b + r) % len(ranges)]
                if which == "sar" and r % 2 == 0:
                    lo = 0.0        # (the other half keeps a non-zero range minimum: the SAR converters measure from
                                    # 0 V whatever it is, and the noisy one must still reproduce the plain one)
                jobs.append({"b": b, "lo": lo, "hi": hi, "which": which, "seed": ctx.seed * 1000 + b * 10 + r})
    traces = check.pmap(adc.law_job, jobs, chunksize=4)
    ctx.cov["recorded_random"] += len(traces)
    validate(ctx, traces, "laws")
    ctx.assumptions += ["resolutions up to 12 bits: every code transition on an integer voltage grid, compared exactly with the "
                        "specification; all resolutions 4..64: only the laws (bounds, monotonicity in rank, saturation ends, "
                        "stored width) on sorted float voltages including +-1 ulp around transitions and infinities, codes "
                        "carried as 16-bit limbs"]


def replay(ctx, payload):
    job = payload["case"]["job"]
    t = adc.exact_job(job) if payload["case"]["kind"] == "adc" else adc.law_job(job)
    print(json.dumps({k: v for k, v in t.items() if k != "case"})[:2000])
    validate(ctx, [t], "replay")
    return ctx.finish()
