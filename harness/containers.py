"""C13: execute operation histories on real containers and project them onto PyxelContainers' state."""

from __future__ import annotations

import copy
import warnings

import numpy as np

from harness import px

R, C = 3, 4
OTHER = {"photon": "signal", "pixel": "signal", "signal": "pixel", "image": "pixel", "phase": "signal"}


def container(kind: str, rows: int = R, cols: int = C):
    det = px.make_detector("mkid" if kind == "phase" else "ccd", rows, cols)
    return getattr(det, kind), det


def concretise(arg: dict, variant: int = 0):
    """A real python object for an abstract argument descriptor."""
    car, shp, dt, idv = arg["carrier"], arg["shape"], arg["dtype"], arg["id"]
    if car == "none":
        return None
    if car == "scalar":
        return float(idv)
    shape = {"ok": (R, C), "rows": ((R + 1, C), (R - 1, C))[variant % 2], "cols": ((R, C + 1), (R, C - 1))[variant % 2],
             "transposed": (C, R), "oned": (R * C,), "threed": (2, R, C), "scalar": ()}.get(shp, (R, C))
    npdt = np.dtype(dt if dt else "float64")
    if car == "cube":
        import xarray as xr
        vals = np.full((2,) + ((R, C) if shp == "ok" else (R + 1, C)), float(idv)).astype(npdt)
        if arg["neg"]:
            vals[0, 0, 0] = -float(idv)
        return xr.DataArray(vals, dims=["wavelength", "y", "x"], coords={"wavelength": [500.0, 600.0]})
    if npdt.kind == "O":
        arr = np.empty(shape, dtype=object)
        arr[...] = float(idv)
    elif npdt.kind == "c":
        arr = np.full(shape, complex(idv, 1))
    elif npdt.kind == "b":
        arr = np.ones(shape, dtype=bool)
    else:
        arr = np.full(shape, idv).astype(npdt)
    if arg["neg"] and npdt.kind in "fi" and arr.size:
        arr.flat[0] = -idv
    vals = "nan" if arg.get("nan") and "vals" not in arg else arg.get("vals")
    if vals in ("nan", "nan+neg") and npdt.kind == "f" and arr.size > 1:
        arr.flat[1] = np.nan
    if vals == "huge" and npdt.kind == "f" and arr.size > 2:
        arr.flat[2] = np.finfo(npdt).max
    if car == "list":
        return arr.tolist()
    if car == "dataarray2d":
        import xarray as xr
        return xr.DataArray(arr)
    return arr


def project(cont, kind: str, rows: int = R, cols: int = C) -> dict:
    a = cont._array
    if a is None:
        return {"empty": True, "shapeok": True, "dt": "", "neg": False, "val": 0, "three": False, "nan": False}
    if not isinstance(a, np.ndarray) and not hasattr(a, "dims"):
        # something that is neither a numpy array nor a DataArray was stored
        return {"empty": False, "shapeok": False, "dt": type(a).__name__, "neg": False, "val": -9, "three": False, "nan": False}
    three = not isinstance(a, np.ndarray)
    vals = np.asarray(a.values if three else a)
    shapeok = (vals.shape[-2:] == (rows, cols)) and vals.ndim == (3 if three else 2)
    with warnings.catch_warnings():
        warnings.simplefilter("ignore")
        try:
            neg = bool(np.nanmin(vals.astype(float)) < 0) if vals.size else False
        except Exception:
            neg = False
        try:
            v = vals.reshape(-1)[-1]
            val = int(v.real if np.iscomplexobj(v) else v) if np.isfinite(float(np.real(v))) else -7
        except Exception:
            val = -8
    try:
        nan = bool(np.isnan(vals.astype(float)).any())
    except Exception:
        nan = False
    return {"empty": False, "shapeok": bool(shapeok), "dt": str(vals.dtype), "neg": neg, "val": val, "three": bool(three),
            "nan": nan}


def _other(kind, cont, cls):
    """The second operand of a comparison."""
    if cls == "copy":
        return copy.deepcopy(cont)
    if cls == "empty":
        return container(kind)[0]
    if cls == "diff":
        o, _ = container(kind)
        o.array = np.full((R, C), 77).astype("uint16" if kind == "image" else "float64")
        return o
    if cls == "otherkind":
        o, _ = container(OTHER[kind])
        if cont._array is not None and isinstance(cont._array, np.ndarray):
            try:
                o.array = np.asarray(cont._array, dtype=float).copy()
            except Exception:
                pass
        return o
    if cls == "othershape":
        o, _ = container(kind, R + 1, C)
        if cont._array is not None:
            o.array = np.full((R + 1, C), 5).astype("uint16" if kind == "image" else "float64")
        return o
    raise ValueError(cls)


def run_history(case: dict) -> dict:
    """Execute the operations of `case` = {kind, ops:[{op,arg}]} on a real container."""
    kind = case["kind"]
    cont, det = container(kind)
    events = []
    variant = case.get("variant", 0)
    for k, o in enumerate(case["ops"]):
        op, arg = o["op"], o["arg"]
        out, ret, exc = "ok", 0, ""
        try:
            with warnings.catch_warnings():
                warnings.simplefilter("ignore")
                if op == "set":
                    obj = concretise(arg, variant + k)
                    if arg["carrier"] == "cube" and kind == "photon":
                        cont.array_3d = obj
                    else:
                        cont.array = obj
                elif op == "update":
                    cont.update(concretise(arg, variant + k))
                elif op == "iadd":
                    cont += concretise(arg, variant + k)
                elif op == "reset":
                    # a reset reaches the container directly, or through its detector (the per-readout reset of a
                    # non-destructive exposure, `empty(False)`, still empties photon, signal and image)
                    if (variant + k) % 2 == 0 and det is not None and kind in ("photon", "signal", "image"):
                        det.empty((variant + k) % 4 == 0)
                    else:        # (pixel and phase are zeroed, not emptied, by the detector-level reset)
                        cont.empty()
                elif op == "read":
                    three = hasattr(cont._array, "dims")
                    got = cont.array_3d if three else cont.array
                    ret = project(cont, kind)["val"]
                    if got is None:
                        out = "ok-none"
                elif op == "eq":
                    other = _other(kind, cont, arg["carrier"])
                    res = []
                    for a_, b_ in ((cont, other), (other, cont)):
                        try:
                            res.append(1 if (a_ == b_) else 0)
                        except Exception as e:
                            res.append(-1)
                            exc = type(e).__name__
                    ret = res[0] if res[0] == res[1] else (-1 if -1 in res else 2)
        except Exception as e:
            out, exc = "error", f"{type(e).__name__}: {str(e)[:80]}"
        ad = {k_: v for k_, v in arg.items() if k_ != "vals"}
        ad["nan"] = bool(arg.get("nan") or (arg.get("vals") in ("nan", "nan+neg") and np.dtype(arg["dtype"] or "float64").kind == "f"
                                           and arg["carrier"] not in ("none", "scalar", "cube")
                                           and arg["shape"] != "scalar"))
        ev = {"op": op, "arg": ad, "out": out,
              "after": project(cont, kind), "ret": ret, "exc": exc}
        if op == "read" and out == "error":
            # "explanatory": a ValueError/TypeError whose message says what is missing
            ev["explanatory"] = bool(("ValueError" in exc or "TypeError" in exc) and len(exc) > 25)
        events.append(ev)
    return {"kind": kind, "events": events, "case": case}
