"""Second binding: traces recorded by the hooks in the repository (PYXEL_VERIF_TRACE).

The repository's own tests and example configurations run the REAL model library; the hook
events (pyxel/util/_verif.py and its call sites) are cut into runs, projected to the
vocabulary of spec/HookTrace.tla and validated by TLC.  Nothing here predicts what a model
computes; the specification decides dispatch, clock, life-cycle and the returned record.
"""

from __future__ import annotations

import hashlib
import json
import os
import subprocess
import sys
from pathlib import Path

from harness import px, tlc

TICK = px.TICK
PYTHON = sys.executable

QUICK_TESTS = ["tests/run", "tests/observation", "tests/exposure", "tests/pipelines"]
THOROUGH_TESTS = QUICK_TESTS + ["tests/calibration", "tests/running_mode", "tests/use_cases", "tests/models",
                                "tests/functional_tests"]


def tree_key() -> str:
    """Content hash of the python sources of the repository under test (cache key)."""
    h = hashlib.sha1()
    for sub, pats in (("pyxel", ("*.py",)), ("tests", ("*.py", "*.yaml", "*.yml"))):
        root = Path(px.REPO) / sub
        for pat in pats:
            for f in sorted(root.rglob(pat)):
                h.update(str(f.relative_to(root)).encode())
                h.update(f.read_bytes())
    return h.hexdigest()[:16]


def _env(trace_file: Path) -> dict:
    env = dict(os.environ)
    env["PYXEL_VERIF_TRACE"] = str(trace_file)
    env["PYTHONPATH"] = px.REPO + os.pathsep + px.VERIF + os.pathsep + env.get("PYTHONPATH", "")
    env["TQDM_DISABLE"] = "1"
    env.pop("PYTEST_CURRENT_TEST", None)
    return env


def record_tests(paths: list, trace_file: Path, timeout: int = 3000) -> dict:
    """Run a part of the repository's test suite with the hooks on.  Test outcomes are not
    judged here (the baseline does that); only the recorded events are used."""
    if trace_file.exists():
        trace_file.unlink()
    scratch = trace_file.parent / "pytest_cwd"
    cmd = [PYTHON, "-m", "pytest", "-q", "-p", "no:cacheprovider", "-x", "--no-header", "-q",
           "--deselect", "tests/functional_tests/test_basic_exposure.py::test_basic_exposure_hdf5"]
    cmd = [c for c in cmd if c != "-x"] + [str(Path(px.REPO) / p) for p in paths]
    try:
        p = subprocess.run(cmd, cwd=px.REPO, env=_env(trace_file), capture_output=True, text=True, timeout=timeout)
    except subprocess.TimeoutExpired as exc:
        raise tlc.MachineryError(f"repository tests did not finish within {timeout}s") from exc
    tail = (p.stdout or "").strip().splitlines()[-1:] or [""]
    return {"summary": tail[0][-200:], "returncode": p.returncode}


EXAMPLE_SCRIPT = r"""
import sys, os, json, warnings
warnings.filterwarnings("ignore")
import logging; logging.disable(logging.CRITICAL)
jobs = json.loads(sys.argv[1])
import pyxel
from pyxel.exposure import Readout
def one(path, times, nd, debug, cwd):
    os.chdir(cwd)
    cfg = pyxel.load(path)
    mode = cfg.running_mode
    mode.readout = Readout(times=times, non_destructive=nd)
    mode.outputs = None
    pyxel.run_mode(mode, cfg.detector, cfg.pipeline, debug=debug)
for path, times, nd, debug in jobs:
    try:
        try:
            one(path, times, nd, debug, sys.argv[2])
        except FileNotFoundError:
            one(path, times, nd, debug, os.path.dirname(path))     # paths relative to the configuration
        print("RUN-OK", flush=True)
    except BaseException as exc:
        print("RUN-RAISED", type(exc).__name__, str(exc)[:120].replace(chr(10), " "), flush=True)
"""


def example_configs() -> list:
    out = subprocess.run(["git", "-C", px.REPO, "ls-files", "*.yaml"], capture_output=True, text=True).stdout.split()
    res = []
    for rel in out:
        f = Path(px.REPO) / rel
        try:
            text = f.read_text()
        except Exception:
            continue
        if "\nexposure:" in "\n" + text and "pipeline:" in text:
            res.append(str(f))
    return sorted(res)


def _example_job(job):
    jobs, trace_file = job
    try:
        p = subprocess.run([PYTHON, "-c", EXAMPLE_SCRIPT, json.dumps(jobs), px.REPO],
                           env=_env(Path(trace_file)), capture_output=True, text=True, timeout=900)
        lines = [ln for ln in (p.stdout or "").splitlines() if ln.startswith("RUN-")]
    except subprocess.TimeoutExpired:
        lines = []
    lines += ["NO-RUN"] * (len(jobs) - len(lines))
    return [{"config": j[0], "times": j[1], "nd": j[2], "outcome": ln[:160]} for j, ln in zip(jobs, lines)]


def record_examples(trace_dir: Path, thorough: bool) -> list:
    """Every exposure configuration shipped with the repository, re-scheduled to several readouts."""
    from harness import check
    scheds = [([1.0, 2.0, 4.0], False), ([0.5, 1.0, 1.5, 4.0], True)]
    if thorough:
        scheds += [([1.0], False), ([1.0, 3.0], True), ([0.25, 0.5, 1.0, 2.0, 4.0, 8.0], False), ([0.1, 0.2, 0.7], True)]
    jobs = []
    for k, path in enumerate(example_configs()):
        for j, (times, nd) in enumerate(scheds):
            jobs.append([path, times, nd, (k + j) % 3 == 0])
    nchunk = 4
    chunks = [(jobs[c::nchunk], str(trace_dir / f"example_{c}.ndjson")) for c in range(nchunk) if jobs[c::nchunk]]
    out = []
    for part in check.pmap(_example_job, chunks, chunksize=1):
        out.extend(part)
    return out


# --------------------------------------------------------------------------
# events -> traces

def _ticks(x: float):
    v = x * TICK
    if v != v or abs(v) >= 2 ** 30 or v != int(v):
        return None
    return int(v)


class _Intern:
    def __init__(self):
        self.ids: dict = {}

    def __call__(self, dg):
        if dg is None:
            return px.EMPTY
        if dg == "0":
            return 0
        if dg == "?":
            self.ids[("?", len(self.ids))] = len(self.ids) + 1
            return len(self.ids)
        if dg not in self.ids:
            self.ids[dg] = len(self.ids) + 1
        return self.ids[dg]


def read_events(files: list) -> list:
    evs = []
    for f in files:
        p = Path(f)
        if not p.exists():
            continue
        with open(p) as fh:
            for line in fh:
                line = line.strip()
                if not line:
                    continue
                try:
                    ev = json.loads(line)
                except Exception:
                    continue          # a line torn by a killed process
                ev["_file"] = str(p)
                evs.append(ev)
    return evs


def cut_runs(events: list) -> tuple[list, dict]:
    """Group by (file, pid, thread), keep order of the per-process sequence number, cut at run_begin."""
    streams: dict = {}
    for ev in events:
        streams.setdefault((ev["_file"], ev["pid"], ev["tid"]), []).append(ev)
    runs, stats = [], {"orphan_events": 0, "seed_events": 0}
    for key, evs in streams.items():
        evs.sort(key=lambda e: e["seq"])
        cur = None
        for ev in evs:
            if ev["e"] in ("seed_enter", "seed_exit"):
                stats["seed_events"] += 1
                continue
            if ev["e"] == "run_begin":
                if cur:
                    runs.append(cur)
                cur = [ev]
            elif cur is None:
                stats["orphan_events"] += 1    # model calls outside run_pipeline (deprecated entry points, unit tests)
            else:
                cur.append(ev)
                if ev["e"] in ("run_end", "model_error"):
                    runs.append(cur)
                    cur = None
        if cur:
            runs.append(cur)
    return runs, stats


def project_run(evs: list) -> dict:
    """One run -> {cfg, events, meta} in the vocabulary of HookTrace."""
    rb = evs[0]
    times, start = rb["times"], rb["start_time"]
    tk = [_ticks(t) for t in times]
    st = _ticks(start)
    exact = st is not None and all(t is not None for t in tk)
    if exact:
        cfg_times, cfg_start = tk, st
    else:
        order = sorted(set(times))
        cfg_times, cfg_start = [order.index(t) + 1 for t in times], 0
    pipe = []
    for gname in px.GROUPS:
        models = rb["pipeline"].get(gname, [])
        pipe.append([{"name": n, "enabled": bool(en), "args": "", "kind": "opaque", "b": "photon", "base": 0, "mask": -1}
                     for n, en in models])
    empty = {b: px.EMPTY for b in px.BUCKETS}
    cfg = {"pipe": pipe, "times": cfg_times, "start": cfg_start, "nd": bool(rb["non_destructive"]),
           "prior": empty, "imgdt": "uint16", "stored": empty}
    intern = _Intern()
    out = []

    def buckets(d):
        return {b: intern(d.get(b)) for b in px.ARRAY_BUCKETS}

    for ev in evs[1:]:
        e = ev["e"]
        if e == "step_begin":
            clock = {"count": ev["count"], "first": ev["first"], "last": ev["last"]}
            if exact:
                t, s, a = _ticks(ev["time"]), _ticks(ev["time_step"]), _ticks(ev["absolute_time"])
                clock.update({"time": t if t is not None else px.BADTICK, "step": s if s is not None else px.BADTICK,
                              "abs": a if a is not None else px.BADTICK})
            else:
                clock["time"] = cfg_times[times.index(ev["time"])] if ev["time"] in times else px.BADTICK
            out.append({"e": e, "clock": clock, "buckets": buckets(ev["buckets"])})
        elif e in ("model_begin", "model_error"):
            out.append({"e": e, "g": ev["group"], "name": ev["model"]})
        elif e == "model_end":
            out.append({"e": e, "g": ev["group"], "name": ev["model"], "buckets": buckets(ev["buckets"])})
        elif e == "step_end":
            out.append({"e": e, "buckets": buckets(ev["buckets"])})
        elif e == "run_end":
            res = {}
            for b, r in ev["result"].items():
                sl = []
                for k, dg in enumerate(r["slices"]):
                    item = {"level": intern(dg)}
                    if exact and k < len(r["labels"]):
                        lab = _ticks(r["labels"][k])
                        item["label"] = lab if lab is not None else px.BADTICK
                    sl.append(item)
                res[b] = sl
            out.append({"e": e, "result": res})
    return {"cfg": cfg, "events": out,
            "meta": {"test": rb.get("test", ""), "file": rb.get("_file", ""), "exact_times": exact,
                     "times": times, "start": start}}


def seed_streams(events: list) -> list:
    """Per process: the seeded-block events in the order of the per-process sequence number."""
    per: dict = {}
    for ev in events:
        if ev["e"] in ("seed_enter", "seed_exit"):
            per.setdefault((ev["_file"], ev["pid"]), []).append(ev)
    out = []
    for key, evs in per.items():
        evs.sort(key=lambda e: e["seq"])
        names: dict = {}
        tr = []
        for ev in evs:
            if ev["tid"] not in names:
                if len(names) >= 8:
                    break
                names[ev["tid"]] = f"t{len(names) + 1}"
            tr.append({"e": ev["e"], "t": names[ev["tid"]], "seed": int(ev["seed"]) % (2 ** 31),
                       "state": {"stream": -5, "seq": [ev["state"]]}})
        # a process killed inside a block leaves an open tail: prefixes are fine
        out.append({"events": tr, "meta": {"file": key[0], "pid": key[1], "threads": len(names),
                                            "tests": sorted({e.get("test", "") for e in evs})[:5]}})
    return out


def dedupe(traces: list) -> list:
    seen, out = set(), []
    for t in traces:
        key = hashlib.sha1(json.dumps([t["cfg"], t["events"]], sort_keys=True).encode()).hexdigest()
        if key not in seen:
            seen.add(key)
            out.append(t)
    return out


def gather(tier: str) -> dict:
    """Record (or take from the cache for this very source tree) the hook traces of the tier."""
    key = tree_key()
    cache = tlc.workdir() / "hooktraces" / f"{tier}_{key}.json"
    if cache.exists():
        return json.loads(cache.read_text())
    d = tlc.fresh_dir(f"hookrec_{tier}_{os.getpid()}")      # several checks may record at the same time
    info = record_tests(QUICK_TESTS if tier == "quick" else THOROUGH_TESTS, d / "tests.ndjson")
    examples = record_examples(d, tier == "thorough")
    events = read_events(sorted(str(f) for f in d.glob("*.ndjson")))
    runs, stats = cut_runs(events)
    traces = dedupe([project_run(r) for r in runs])
    seeds = seed_streams(events)
    out = {"traces": traces, "seed_traces": seeds, "stats": {"events": len(events), "runs": len(runs), "distinct_runs": len(traces),
                                      "multi_step_runs": sum(1 for t in traces if len(t["cfg"]["times"]) > 1),
                                      "tests": info, "examples": examples, **stats}}
    cache.parent.mkdir(parents=True, exist_ok=True)
    for old in cache.parent.glob(f"{tier}_*.json"):
        try:
            old.unlink()
        except OSError:
            pass
    tmp = cache.with_suffix(f".{os.getpid()}.tmp")
    tmp.write_text(json.dumps(out))
    os.replace(tmp, cache)
    import shutil
    shutil.rmtree(d, ignore_errors=True)
    return out


# --------------------------------------------------------------------------
# validation

CHECKS = {
    "C01": {"dispatch": True, "clock": False, "reset": False, "stepend": False, "result": False},
    "C02": {"dispatch": False, "clock": True, "reset": True, "stepend": False, "result": False},
    "C03": {"dispatch": False, "clock": False, "reset": False, "stepend": True, "result": True},
}


def strip(trace: dict, prop: str) -> dict:
    """Each property decides its own clauses (see Chk in HookTrace.tla); the rest of the
    recording only keeps the pass in step with the execution."""
    return {"cfg": trace["cfg"], "events": trace["events"], "check": CHECKS[prop]}


def _corrupt(prop):
    def fn(tr):
        evs = tr["events"]
        if prop == "C01":
            for k in range(len(evs) - 1):
                if evs[k]["e"] == "model_begin":
                    evs[k]["name"] = evs[k]["name"] + "~"
                    return tr
        if prop == "C02":
            for ev in evs:
                if ev["e"] == "step_begin" and "count" in ev.get("clock", {}):
                    ev["clock"]["count"] += 1
                    return tr
        if prop == "C03":
            for ev in evs:
                if ev["e"] == "run_end":
                    for b, sl in ev["result"].items():
                        for s in sl:
                            if s["level"] > 0:
                                s["level"] += 100
                                return tr
        return None
    return fn


def check(ctx, prop: str | None = None):
    prop = prop or ctx.prop
    # the design: the run invariants hold whatever opaque models write into the buckets, or if they raise
    ctx.model_check("MC_Pipeline", f"MC_Pipeline_opaque_{ctx.tier}.cfg",
                    required_actions=["BeginStep", "EndStep", "Finish", "MCOpaqueRun", "MCOpaqueRaise"],
                    note="models of unknown effect (any content in pixel / charge / image, or a failure) x steps x mode: "
                         "C01 C02 C03 C09 invariants")
    data = gather(ctx.tier)
    traces = data["traces"]
    ctx.notes["hook_traces"] = {k: v for k, v in data["stats"].items() if k != "examples"}
    ctx.notes["hook_example_runs"] = [e["outcome"][:60] + " " + os.path.basename(e["config"]) for e in data["stats"]["examples"]][:40]
    if not traces:
        raise tlc.MachineryError("the hooks recorded no run (is PYXEL_VERIF_TRACE honoured by the tree under test?)")
    stripped = [strip(t, prop) for t in traces]
    rejected = ctx.validate("HookTrace", stripped, label="hooks", corrupt=_corrupt(prop), cfg="HookTrace.cfg")
    if not rejected:
        return
    idx = [k for k, _ in rejected][:30]
    diag = tlc.diagnose("HookTrace", [stripped[k] for k in idx], tag=f"{ctx.prop}_hooks", cfg="HookTrace.cfg")
    seen = set()
    for pos, k in enumerate(idx, start=1):
        l, exp = diag.get(pos, (dict(rejected)[k], {}))
        evs = stripped[k]["events"]
        ev = evs[l - 1] if 1 <= l <= len(evs) else {"e": "?"}
        meta = traces[k]["meta"]
        sig = {"step_begin": "hooks.step-begin", "model_begin": "hooks.dispatch", "model_end": "hooks.dispatch",
               "model_error": "hooks.dispatch", "step_end": "hooks.step-end", "run_end": "hooks.result"}.get(ev["e"], "hooks.trace")
        if (sig, meta.get("test")) in seen:
            continue
        seen.add((sig, meta.get("test")))
        ctx.violation(sig, f"run recorded in {meta.get('test') or meta.get('file')}: event {json.dumps(ev)[:300]} is not a step of "
                      f"the specification; state {json.dumps(exp)[:500]}",
                      {"kind": "hooktrace", "trace": stripped[k], "meta": meta}, {"event": ev["e"]})


def replay(ctx, payload):
    tr = payload["case"]["trace"]
    rejected = ctx.validate("HookTrace", [tr], label="replay", corrupt=None, cfg="HookTrace.cfg")
    for k, l in rejected:
        ctx.violation("hooks.replay", f"stored hook trace rejected at event {l}", payload["case"], {})
    return ctx.finish()


def check_seed(ctx):
    """C04 on the recorded seeded blocks of the repository's tests and examples (SeedHookTrace)."""
    data = gather(ctx.tier)
    traces = [t for t in data.get("seed_traces", []) if t["events"]]
    ctx.notes["hook_seed_streams"] = {"processes": len(traces), "events": sum(len(t["events"]) for t in traces)}
    if not traces:
        return
    stripped = [{"events": t["events"]} for t in traces]

    def corrupt(tr):
        for ev in tr["events"]:
            if ev["e"] == "seed_exit":
                ev["state"] = {"stream": -5, "seq": ["corrupted"]}
                return tr
        return None
    rejected = ctx.validate("SeedHookTrace", stripped, label="seedhooks", corrupt=corrupt, cfg="SeedHookTrace.cfg")
    for k, l in rejected:
        evs = traces[k]["events"]
        ev = evs[l - 1] if 1 <= l <= len(evs) else {"e": "?"}
        sig = "hooks.seed-restored" if ev["e"] == "seed_exit" else "hooks.seed-overlap"
        ctx.violation(sig, f"seeded block recorded while running {traces[k]['meta']['tests']}: event {l} {ev} is not a step "
                      "of PyxelSeedThreads (state at exit differs from the state saved at entry, or blocks of two threads overlap)",
                      {"kind": "seedhooktrace", "trace": stripped[k], "meta": traces[k]["meta"]}, {"event": ev["e"]})
