"""C19: output directories and output files."""

from __future__ import annotations

import datetime as _dt
import os
import re
import shutil
import tempfile
import threading
import warnings
from pathlib import Path

import numpy as np

from harness import px

BASE = _dt.datetime(2031, 5, 6, 7, 8, 0)
_NAME = re.compile(r"^run_(\d{8}_\d{6})(?:_(\d+))?$")


def dirname(stamp: int, n: int) -> str:
    d = (BASE + _dt.timedelta(seconds=stamp)).strftime("%Y%m%d_%H%M%S")
    return f"run_{d}" + (f"_{n}" if n else "")


def parse_name(name: str):
    m = _NAME.match(name)
    if not m:
        return [-9, -9]
    t = _dt.datetime.strptime(m.group(1), "%Y%m%d_%H%M%S")
    return [int((t - BASE).total_seconds()), int(m.group(2) or 0)]


def schedule_job(case) -> dict:
    """Force the schedule of system calls that TLC produced on real threads running
    create_output_directory (gates around datetime.now and Path.mkdir)."""
    import pyxel.outputs.outputs as mod
    parent = Path(tempfile.mkdtemp(prefix="outdir_", dir=os.environ.get("VERIF_WORK", px.VERIF + "/.work")))
    events = []
    clock = {"t": 0}
    nproc = len(case["own"])
    gates = {p: threading.Semaphore(0) for p in range(1, nproc + 1)}
    arrived = {p: threading.Semaphore(0) for p in range(1, nproc + 1)}
    ident = {}
    result = {}
    lock = threading.Lock()
    orig_mkdir = Path.mkdir
    orig_dt = mod.datetime

    def me():
        return ident.get(threading.get_ident())

    def wait_turn(kind):
        p = me()
        arrived[p].release()          # "I am at a system call"
        gates[p].acquire()            # wait until the schedule lets me do it

    class FakeDateTime:
        @staticmethod
        def now():
            if me() is not None:
                wait_turn("clock")
                with lock:
                    events.append({"e": "clock", "p": me(), "stamp": clock["t"]})
            return BASE + _dt.timedelta(seconds=clock["t"])

    def fake_mkdir(self, *a, **k):
        p = me()
        if p is None or Path(self).parent != parent.resolve():
            return orig_mkdir(self, *a, **k)
        wait_turn("mkdir")
        ok = True
        try:
            orig_mkdir(self, *a, **k)
        except FileExistsError:
            ok = False
        with lock:
            st, n = parse_name(Path(self).name)
            events.append({"e": "mkdir", "p": p, "stamp": st, "n": n, "ok": ok})
        if not ok:
            raise FileExistsError(str(self))

    for st, n in case["pre"]:
        orig_mkdir(parent / dirname(st, n))

    def worker(p):
        ident[threading.get_ident()] = p
        try:
            result[p] = mod.create_output_directory(parent, custom_dir_name="run_")
        except Exception as e:      # pragma: no cover
            result[p] = e
        arrived[p].release()

    mod.datetime = FakeDateTime
    Path.mkdir = fake_mkdir
    threads = [threading.Thread(target=worker, args=(p,), daemon=True) for p in range(1, nproc + 1)]
    stuck = ""
    try:
        for t in threads:
            t.start()
        for p in range(1, nproc + 1):
            if not arrived[p].acquire(timeout=10):
                stuck = f"thread {p} never reached its first system call"
        for step in case["sched"]:
            if stuck:
                break
            if step[0] == "tick":
                clock["t"] += 1
                events.append({"e": "tick"})
            elif step[0] in ("clock", "mkdir"):
                p = step[1]
                gates[p].release()
                if not arrived[p].acquire(timeout=10):
                    stuck = f"thread {p} did not come back after {step}"
        for p in range(1, nproc + 1):     # let any thread that still waits run to the end
            for _ in range(50):
                gates[p].release()
        for t in threads:
            t.join(timeout=5)
    finally:
        Path.mkdir = orig_mkdir
        mod.datetime = orig_dt
    for p in range(1, nproc + 1):
        r = result.get(p)
        if isinstance(r, Path):
            st, n = parse_name(r.name)
            events.append({"e": "own", "p": p, "stamp": st, "n": n})
    shutil.rmtree(parent, ignore_errors=True)
    return {"pre": case["pre"], "events": events, "case": {"kind": "sched", "case": case}, "stuck": stuck}


def race_job(job) -> dict:
    """N processes released by a barrier into the same parent folder; names only."""
    import multiprocessing as mp
    parent = Path(tempfile.mkdtemp(prefix="outrace_", dir=os.environ.get("VERIF_WORK", px.VERIF + "/.work")))
    n = job["n"]
    pre = []
    now = _dt.datetime.now()
    for k in range(job.get("pre", 0)):      # pre-existing directories with names the runs are about to try
        for sec in (0, 1, 2):
            d = "run_" + (now + _dt.timedelta(seconds=sec)).strftime("%Y%m%d_%H%M%S") + (f"_{k}" if k else "")
            (parent / d).mkdir(exist_ok=True)
            pre.append(d)
    ctx = mp.get_context("fork")
    bar = ctx.Barrier(n)
    q = ctx.Queue()

    def child(i):
        from pyxel.outputs import ExposureOutputs
        out = ExposureOutputs(output_folder=parent, custom_dir_name="run_")
        bar.wait()
        out.create_output_folder()
        q.put((i, out.current_output_folder.name))

    procs = [ctx.Process(target=child, args=(i,)) for i in range(n)]
    for p in procs:
        p.start()
    got = [q.get(timeout=60) for _ in range(n)]
    for p in procs:
        p.join(timeout=30)
    events = [{"e": "predir", "name": d} for d in sorted(set(pre))]
    events += [{"e": "ownname", "p": i + 1, "name": name} for i, name in sorted(got)]
    events.append({"e": "end"})
    shutil.rmtree(parent, ignore_errors=True)
    return {"pre": [], "events": events, "case": {"kind": "race", "job": job}, "stuck": ""}


def _read(path: Path):
    if path.suffix == ".npy":
        return np.load(path)
    if path.suffix == ".fits":
        from astropy.io import fits
        return np.asarray(fits.getdata(path))
    return None


def _same(a, b) -> bool:
    """Lossless formats read back bit-identically (values and dtype kind/width; FITS stores big-endian)."""
    a, b = np.asarray(a), np.asarray(b)
    return a.shape == b.shape and a.dtype.kind == b.dtype.kind and a.dtype.itemsize == b.dtype.itemsize \
        and bool(np.array_equal(a, b))


def files_job(job) -> dict:
    """Run a simulation with outputs enabled; report what was requested, what was reported and
    what the reported files hold."""
    import dask
    import pyxel
    from pyxel.exposure import Exposure, Readout
    from pyxel.outputs import ExposureOutputs, ObservationOutputs
    from pyxel.pipelines import DetectionPipeline, ModelFunction

    from harness import obs
    parent = Path(tempfile.mkdtemp(prefix="outfiles_", dir=os.environ.get("VERIF_WORK", px.VERIF + "/.work")))
    events = []
    try:
        with warnings.catch_warnings():
            warnings.simplefilter("ignore")
            # something that already exists in the parent folder and must stay as it is
            keep = parent / "detector_photon_array_1.npy"
            np.save(keep, np.full((2, 2), 123.0))
            old = parent / "run_20000101_000000"
            old.mkdir()
            np.save(old / "detector_photon.npy", np.full((2, 2), 7.0))
            for d in sorted(x.name for x in parent.iterdir() if x.is_dir()):
                events.append({"e": "predir", "name": d})
            save = job["save"]
            merged: dict = {}          # bucket -> requested formats (a bucket may be named in several entries)
            for d in save:
                for key, fmts in d.items():
                    lst = merged.setdefault(key.split(".")[1], [])
                    lst += [f for f in fmts if f not in lst]
            buckets = list(merged.items())
            owns = []
            for rep in range(job.get("repeat", 1)):
                p = rep + 1
                if job["mode"] == "exposure":
                    if rep == 0 or not job.get("reuse"):
                        # `reuse`: the same Outputs / mode / detector / pipeline objects serve every run (a session)
                        out = ExposureOutputs(output_folder=parent, save_data_to_file=save)
                        cfg = job["cfg"]
                        pipe = px.build_pipeline(cfg)
                        det = px.make_detector("ccd", 2, 3)
                        xmode = Exposure(readout=px.build_readout(cfg), outputs=out)
                    dt = pyxel.run_mode(xmode, det, pipe, with_inherited_coords=True)
                    labels = [()]
                else:
                    out = ObservationOutputs(output_folder=parent, save_data_to_file=save)
                    o, det, pipe, targets, tmp, msg = obs.build(job["ocfg"], job.get("variant", 0), outputs=out,
                                                                delay=job.get("delay", 0.0),
                                                                img=any("image" in k for d in save for k in d))
                    dkw = {"scheduler": job["scheduler"]} if job.get("scheduler") else {}
                    if job.get("workers"):
                        dkw["num_workers"] = job["workers"]
                    with dask.config.set(**dkw):
                        dt = pyxel.run_mode(o, det, pipe, with_inherited_coords=True)
                        if job["ocfg"]["dask"]:
                            dt = dt.compute()
                    if tmp:
                        shutil.rmtree(tmp, ignore_errors=True)
                    labels = None
                own = Path(out.current_output_folder)
                owns.append(own)
                events.append({"e": "ownname", "p": p, "name": own.name})
                bucket_ds = dt["/bucket"].to_dataset(inherit=True)
                for b, fmts in buckets:
                    node = dt[f"/output/{b}"].to_dataset(inherit=True)
                    fn = node["filename"]
                    extdim = "extension" if "extension" in fn.dims else "data_format"
                    pdims = [d for d in fn.dims if d != extdim]
                    for idx in np.ndindex(*[fn.sizes[d] for d in pdims]):
                        sel = dict(zip(pdims, idx))
                        run = "-".join(f"{d}={fn.coords[d].values[i]}" for d, i in sel.items()) or "single"
                        # the data of exactly this run, selected by the same labels
                        lab = {d: fn.coords[d].values[i] for d, i in sel.items()}
                        data = bucket_ds[b].sel(lab).isel(time=-1).values
                        for fmt in fmts:
                            events.append({"e": "request", "p": p, "run": run, "bucket": b, "fmt": fmt})
                        for k, fmt in enumerate(fn.coords[extdim].values):
                            name = str(fn.isel(sel).isel({extdim: k}).values)
                            path = Path(name)
                            if not path.is_absolute():
                                path = own / name
                            exists = path.exists()
                            content = _read(path) if exists else None
                            if b == "image" and content is not None:
                                # the merged tree of an observation may hold the image as floats; the FILE must hold the
                                # detector's unsigned integers with the values of its run
                                same = bool(np.asarray(content).dtype.kind == "u" and np.asarray(content).shape == np.asarray(data).shape
                                            and np.array_equal(np.asarray(content, dtype=float), np.asarray(data, dtype=float)))
                            else:
                                same = True if (content is None and exists) else (exists and _same(content, data))
                            # "... in the requested format": the file reported for a format is a file of that format
                            same = bool(same) and path.suffix.lstrip(".").lower() == str(fmt).lower()
                            events.append({"e": "reported", "p": p, "run": run, "bucket": b, "fmt": str(fmt),
                                           "path": str(path.relative_to(parent)) if str(path).startswith(str(parent)) else str(path),
                                           "indir": path.parent == own, "exists": bool(exists), "same": bool(same)})
            events.append({"e": "prefile", "path": keep.name, "same": bool(np.array_equal(np.load(keep), np.full((2, 2), 123.0)))})
            events.append({"e": "prefile", "path": "old/detector_photon.npy",
                           "same": bool(np.array_equal(np.load(old / "detector_photon.npy"), np.full((2, 2), 7.0)))})
            events.append({"e": "end"})
        return {"pre": [], "events": events, "case": {"kind": "files", "job": job}, "stuck": ""}
    except Exception:
        import traceback
        return {"pre": [], "events": events + [{"e": "harness-error", "why": traceback.format_exc()[-700:]}],
                "case": {"kind": "files", "job": job}, "stuck": ""}
    finally:
        shutil.rmtree(parent, ignore_errors=True)


def deprecated_files_job(job) -> dict:
    """The deprecated entry point pyxel.observation_mode with outputs: no report is returned, the files are
    attributed by their run number - file <bucket>_<n> holds the bucket of the n-th parameter combination
    (in run-index order), each exactly once, whatever the scheduler and the completion order."""
    import dask
    import pyxel
    from pyxel.outputs import ObservationOutputs

    from harness import obs
    parent = Path(tempfile.mkdtemp(prefix="depfiles_", dir=os.environ.get("VERIF_WORK", px.VERIF + "/.work")))
    out = {"job": job, "error": "", "files": {}, "expected": {}}
    try:
        with warnings.catch_warnings():
            warnings.simplefilter("ignore")
            outp = ObservationOutputs(output_folder=parent, save_data_to_file=[{"detector.photon.array": ["npy"]}])
            o, det, pipe, targets, tmp, msg = obs.build(job["ocfg"], job.get("variant", 0), outputs=outp,
                                                        delay=job.get("delay", 0.0))
            # reference: the sequential execution of the same space (values per run index)
            dkw = {"scheduler": job["scheduler"]} if job.get("scheduler") else {}
            if job.get("workers"):
                dkw["num_workers"] = job["workers"]
            with dask.config.set(**dkw):
                pyxel.observation_mode(observation=o, detector=det, pipeline=pipe)
            own = Path(outp.current_output_folder)
            for f in sorted(own.glob("detector_photon_array_*.npy")):
                n = int(f.stem.rsplit("_", 1)[1])
                out["files"][n] = int(px.level_of(np.load(f)))
            if tmp:
                shutil.rmtree(tmp, ignore_errors=True)
    except Exception:
        import traceback
        out["error"] = traceback.format_exc()[-500:]
    finally:
        shutil.rmtree(parent, ignore_errors=True)
    return out


def numbering_job(job) -> dict:
    """PyxelNumbering: `nsaves` automatically numbered saves of one name into a folder that already holds the
    numbers `pre`; after each save the folder is listed.  how = npy | txt (the deprecated save_to_* methods of
    the outputs object) or 'exposure' (the legacy pyxel.exposure_mode saves one file per readout)."""
    from pyxel.outputs import ExposureOutputs
    parent = Path(tempfile.mkdtemp(prefix="numbering_", dir=os.environ.get("VERIF_WORK", px.VERIF + "/.work")))
    ext = "npy" if job["how"] == "npy" else "txt"
    events = []

    def read(f):
        a = np.load(f) if ext == "npy" else np.loadtxt(f, delimiter="|")
        return int(round(float(np.asarray(a).ravel()[0])))

    def listing(folder, stem):
        nums = sorted(int(f.stem.rsplit("_", 1)[1]) for f in folder.glob(f"{stem}_*.{ext}"))
        return nums, [read(folder / f"{stem}_{n}.{ext}") for n in nums]

    def put(folder, stem, n):
        f = folder / f"{stem}_{n}.{ext}"
        np.save(f, np.zeros((2, 2))) if ext == "npy" else np.savetxt(f, np.zeros((2, 2)), delimiter=" | ", fmt="%.8e")

    try:
        with warnings.catch_warnings():
            warnings.simplefilter("ignore")
            if job["how"] in ("npy", "txt"):
                outp = ExposureOutputs(output_folder=parent)
                outp.create_output_folder()
                folder, stem = Path(outp.current_output_folder), "detector_pixel_array"
                for n in job["pre"]:
                    put(folder, stem, n)
                for k in range(1, job["nsaves"] + 1):
                    ev = {"out": "ok", "n": -1}
                    try:
                        data = np.full((2, 2), float(k))
                        f = (outp.save_to_npy if ext == "npy" else outp.save_to_txt)(data=data, name="detector.pixel.array")
                        ev["n"] = int(Path(f).stem.rsplit("_", 1)[1])
                    except Exception as exc:
                        ev["out"], ev["exc"] = "error", f"{type(exc).__name__}: {exc}"[-120:]
                    ev["listing"], ev["contents"] = listing(folder, stem)
                    events.append(ev)
            else:
                import pyxel
                from pyxel.exposure import Exposure, Readout
                from pyxel.pipelines import DetectionPipeline, ModelFunction, ModelGroup
                n = job["nsaves"]
                outp = ExposureOutputs(output_folder=parent, save_data_to_file=[{"detector.pixel.array": ["txt"]}])
                det = px.make_detector("ccd", 2, 2)
                mode = Exposure(readout=Readout(times=[float(k) for k in range(1, n + 1)], non_destructive=False),
                                outputs=outp)
                pipe = DetectionPipeline(charge_collection=[ModelFunction(
                    func="harness.outputs.readout_counter", name="counter", arguments={})])
                pyxel.exposure_mode(exposure=mode, detector=det, pipeline=pipe)
                folder, stem = Path(outp.current_output_folder), "detector_pixel_array"
                nums, contents = listing(folder, stem)
                # the saves happened one per readout: rebuild the per-save view from the final listing
                for k in range(1, n + 1):
                    upto = [(a, c) for a, c in zip(nums, contents) if c <= k]
                    events.append({"out": "ok", "n": next((a for a, c in upto if c == k), -1),
                                   "listing": [a for a, _ in upto], "contents": [c for _, c in upto]})
    except Exception:
        import traceback
        events.append({"out": "harness-error", "n": -1, "listing": [], "contents": [], "exc": traceback.format_exc()[-600:]})
    finally:
        shutil.rmtree(parent, ignore_errors=True)
    return {"pre": list(job["pre"]), "events": events, "case": {"kind": "numbering", "job": job}}


def readout_counter(detector) -> None:
    """Probe model: the pixel bucket holds the 1-based index of the readout."""
    detector.pixel.array = np.full(detector.pixel.shape, float(detector.pipeline_count + 1))
