"""Probe models: ordinary pyxel model functions used to observe a run from inside.

`probe(detector, _p=..., **user_args)` goes through the real ModelFunction.__call__,
the real dispatch and the real containers.  At entry it logs one `call` event
(own observed identity, received keyword arguments, clock, projected buckets), then
applies the abstract effect its control record `_p` describes:

  obs      nothing
  set      bucket := level(base + count)        when active at this step
  add      bucket += (base + count)             when active at this step
  raise    raise the named exception            when active at this step
  flux     bucket += base * time_step[ticks]
  conv     charge += base * photon
  collect  pixel += charge
"""

from __future__ import annotations

import sys
import threading

import numpy as np

from harness import px


class ProbeError(Exception):
    """A user-defined exception class for fault injection."""


EXC = {"ValueError": ValueError, "KeyError": KeyError, "RuntimeError": RuntimeError,
       "ZeroDivisionError": ZeroDivisionError, "ProbeError": ProbeError,
       "TypeError": TypeError, "OSError": OSError, "StopIteration": StopIteration, "AssertionError": AssertionError,
       "LookupError": LookupError}


class Sink:
    """Per-process event sink; events carry a per-sink sequence number."""

    def __init__(self):
        self.lock = threading.Lock()
        self.reset()

    def reset(self):
        with getattr(self, "lock", threading.Lock()):
            self.events = []
            self.counts = {}
            self.detectors = []
            self.seq = 0

    def emit(self, ev):
        with self.lock:
            self.seq += 1
            ev["seq"] = self.seq
            self.events.append(ev)


SINK = Sink()


def _dispatching_group() -> str:
    """Name of the ModelGroup whose run() is dispatching us (observed, not configured)."""
    f = sys._getframe(2)
    while f is not None:
        if f.f_code.co_name == "run" and "self" in f.f_locals:
            obj = f.f_locals["self"]
            if type(obj).__name__ == "ModelGroup":
                return obj._name
        f = f.f_back
    return "?"


def _active(mask: int, step: int) -> bool:
    return mask == -1 or (step < 30 and (mask >> step) & 1 == 1)


def probe(detector, _p=None, **user):
    p = _p or {}
    gname = _dispatching_group()
    name = detector.current_running_model_name
    key = (p.get("run", 0), gname, name)
    with SINK.lock:
        own = SINK.counts.get(key, 0)
        SINK.counts[key] = own + 1
        if not any(d is detector for d in SINK.detectors):
            SINK.detectors.append(detector)
        det_idx = next(k for k, d in enumerate(SINK.detectors) if d is detector)
    ev = {"e": "call", "step": own,
          "g": px.GROUPS.index(gname) + 1 if gname in px.GROUPS else 0,
          "name": name, "args": px.canon_args(user),
          "clock": px.project_clock(detector), "seen": px.project_buckets(detector),
          "det": det_idx}
    if "run" in p:
        ev["run"] = p["run"]
    SINK.emit(ev)

    kind = p.get("kind", "obs")
    count = int(detector.pipeline_count)
    shape = (detector.geometry.row, detector.geometry.col)
    b = p.get("b")
    base = p.get("base", 0)
    mask = p.get("mask", 0)
    if kind == "raise":
        if _active(mask, count):
            raise EXC[b](p.get("msg", "boom"))
        return
    if kind in ("set", "cset", "add", "padd") and not _active(mask, count):
        return
    if kind == "set":
        _set(detector, b, base + count, shape, p)
    elif kind == "cset":
        _set(detector, b, base, shape, p)
    elif kind == "add":
        _add(detector, b, base + count, shape, p)
    elif kind == "padd":
        _add_clusters(detector, base + count, shape)
    elif kind == "flux":
        ticks = px.to_ticks(detector.time_step)
        _add(detector, b, base * ticks, shape, p)
    elif kind == "conv":
        cur = px.level_of(detector.photon._array)
        _add(detector, "charge", (base * max(cur, 0)) // 2, shape, p)
    elif kind == "collect":
        cur = px.level_of(detector.charge.array)
        _add(detector, "pixel", max(cur, 0), shape, p)


def _set(detector, b, level, shape, p):
    fdt = p.get("fdt", "float64")
    if b == "photon":
        if p.get("photon3d"):
            import xarray as xr
            nw = int(p["photon3d"])
            vals = np.stack([px.level_array(level, shape) + w / 64.0 for w in range(nw)])
            # photon3d_shift: the wavelength grid moves with the readout (a valid input: a time-dependent scene)
            w0 = int(detector.pipeline_count) if p.get("photon3d_shift") else 0
            coords = {"wavelength": [500.0 + 10 * (w + w0) for w in range(nw)]}
            if p.get("photon3d_coords"):     # the model labels rows / columns with positions of its own (valid input)
                coords["y"] = [5.0 + 10.0 * k for k in range(shape[0])]
                coords["x"] = [8.0 + 16.0 * k for k in range(shape[1])]
            detector.photon.array_3d = xr.DataArray(vals, dims=["wavelength", "y", "x"], coords=coords)
        else:
            detector.photon.array = px.level_array(level, shape, fdt)
    elif b == "pixel":
        detector.pixel.array = px.level_array(level, shape, fdt)
    elif b == "signal":
        detector.signal.array = px.level_array(level, shape, fdt)
    elif b == "image":
        detector.image.array = px.level_array(level, shape, p.get("imgdt", "uint16"))
    elif b == "charge":
        detector.charge.empty()
        detector.charge.add_charge_array(px.level_array(level, shape))
    elif b == "scene":
        from pyxel.data_structure import Scene
        sc = Scene()
        sc.add_source(px.make_scene_source(level))
        detector.scene = sc
    elif b == "data":
        px.set_data_token(detector, level)
    else:
        raise ValueError(b)


def _add_clusters(detector, level, shape):
    """Add `level` to the charge bucket as positioned clusters, one per pixel centre."""
    geo = detector.geometry
    cur = detector.charge.array
    arr = px.level_array(level, shape, ramped=not cur.any())
    ys, xs = np.mgrid[0:shape[0], 0:shape[1]]
    n = arr.size
    z = np.zeros(n)
    detector.charge.add_charge(
        particle_type="e", particles_per_cluster=arr.ravel().astype(float), init_energy=z,
        init_ver_position=(ys.ravel() + 0.5) * geo.pixel_vert_size,
        init_hor_position=(xs.ravel() + 0.5) * geo.pixel_horz_size,
        init_z_position=z, init_ver_velocity=z, init_hor_velocity=z, init_z_velocity=z)


def _add(detector, b, level, shape, p):
    if b == "charge":
        cur = px.level_of(detector.charge.array)
        if cur == 0 and not detector.charge.array.any():
            detector.charge.add_charge_array(px.level_array(level, shape))
        else:
            detector.charge.add_charge_array(px.level_array(level, shape, ramped=False))
        return
    cont = getattr(detector, b)
    if cont._array is None:
        _set(detector, b, level, shape, p)
        return
    if b == "image":
        cont.array = (cont.array + np.asarray(level, dtype=cont.array.dtype)).astype(cont.array.dtype)
    elif b == "pixel" and px.level_of(cont._array) == 0 and not cont._array.any():
        cont.array = px.level_array(level, shape, p.get("fdt", "float64"))
    else:
        cont.array = cont.array + np.asarray(level, dtype=cont.array.dtype)


# the same probe as callables that are not plain functions (a model may be any callable reachable by a dotted path)
import functools  # noqa: E402

probe_partial = functools.partial(probe)


class _ProbeObject:
    def __call__(self, detector, _p=None, **user):
        return probe(detector, _p=_p, **user)


probe_object = _ProbeObject()
