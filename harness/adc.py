"""C16: digitise voltage frames with the real converters."""

from __future__ import annotations

import warnings
from fractions import Fraction

import numpy as np

from harness import px

UNIT = 2.0 ** -6


def detector_for(n, bits, vrange, kind="ccd"):
    det = px.make_detector(kind, 1, n)
    det.characteristics.adc_voltage_range = (float(vrange[0]), float(vrange[1]))
    # through the private field: resolutions are set per case, the public setter is C12's business
    det.characteristics._adc_bit_resolution = int(bits)
    return det


def run_converter(which, volts, bits, vrange):
    from pyxel.models.readout_electronics import sar_adc, sar_adc_with_noise, simple_adc
    det = detector_for(len(volts), bits, vrange)
    det.signal.array = np.asarray(volts, dtype=float).reshape(1, -1)
    with warnings.catch_warnings():
        warnings.simplefilter("ignore")
        if which == "simple":
            simple_adc(det)
        elif which == "sar":
            sar_adc(det)
        else:
            sar_adc_with_noise(det, strengths=tuple([0.0] * bits), noises=tuple([0.0] * bits))
    img = det.image.array
    return [int(x) for x in img.ravel()], img.dtype.itemsize * 8, img.dtype.kind


def limbs(c):
    c = int(c)
    if c < 0 or c >= 2 ** 64:
        return [70000, 0, 0, 0]
    return [(c >> 48) & 0xFFFF, (c >> 32) & 0xFFFF, (c >> 16) & 0xFFFF, c & 0xFFFF]


def exact_job(job):
    b = job["b"]
    fs = 2 ** b - 1
    if job["kind"] == "simple":
        lo, S = 3, 2
        hi = lo + fs * S
        vs = list(range(lo - 3, hi + 4))
        codes, width, kind = run_converter("simple", [v * UNIT for v in vs], b, (lo * UNIT, hi * UNIT))
        tr = {"kind": "simple", "b": b, "lo": lo, "hi": hi, "vs": vs, "codes": codes, "width": width if kind == "u" else -1}
    else:
        U = 2
        vmax = (2 ** b) * U
        vs = list(range(-2 * U, vmax + 2 * U + 1))
        volts = [v * UNIT for v in vs]
        codes, width, kind = run_converter("sar", volts, b, (0.0, vmax * UNIT))
        noisy, _, _ = run_converter("noisy", volts, b, (0.0, vmax * UNIT))
        tr = {"kind": "sar", "b": b, "vmax": vmax, "vs": vs, "codes": codes, "noisy": noisy,
              "width": width if kind == "u" else -1}
    tr["case"] = {"kind": "adc", "job": job}
    return tr


def law_voltages(lo, hi, b, rng, ntrans=40):
    """Sorted float voltages: range ends, +-1 ulp around code transitions, far outside, infinities."""
    fs = 2 ** b - 1
    vals = {-np.inf, np.inf, lo - abs(hi - lo) * 1e6, hi + abs(hi - lo) * 1e6, lo, hi,
            np.nextafter(lo, -np.inf), np.nextafter(lo, np.inf), np.nextafter(hi, -np.inf), np.nextafter(hi, np.inf),
            (lo + hi) / 2}
    ks = {1, 2, fs, fs - 1, fs // 2, fs // 2 + 1} | {rng.randint(1, fs) for _ in range(ntrans)}
    for k in ks:
        if 1 <= k <= fs:
            t = float(Fraction(lo) + Fraction(k) * (Fraction(hi) - Fraction(lo)) / fs)
            vals |= {t, np.nextafter(t, -np.inf), np.nextafter(t, np.inf)}
    for _ in range(20):
        vals.add(rng.uniform(lo, hi))
    return sorted(vals)


def law_job(job):
    import random
    rng = random.Random(job["seed"])
    b, lo, hi, which = job["b"], job["lo"], job["hi"], job["which"]
    vs = law_voltages(lo, hi, b, rng)
    codes, width, kind = run_converter(which, vs, b, (lo, hi))
    noisyeq = True
    if which == "sar":
        noisy, _, _ = run_converter("noisy", vs, b, (lo, hi))
        noisyeq = noisy == codes
    nlow = sum(1 for v in vs if v <= lo)
    nhigh = sum(1 for v in vs if v >= hi)
    if which == "sar":      # the successive-approximation converter measures from 0 V
        nlow = sum(1 for v in vs if v <= 0) if lo <= 0 else 0
    return {"kind": "law", "b": b, "codes": [limbs(c) for c in codes], "nlow": nlow, "nhigh": nhigh,
            "width": width if kind == "u" else -1, "noisyeq": bool(noisyeq),
            "case": {"kind": "adclaw", "job": job}, "raw": {"vs": [repr(v) for v in vs], "codes": codes}}
