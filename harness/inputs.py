"""C20: placements, cached loads and format round trips with the real loaders."""

from __future__ import annotations

import os
import shutil
import tempfile
import warnings

import numpy as np

from harness import px


def in_array(h, w):
    return (np.arange(h * w, dtype=float).reshape(h, w) + 1.0)


def _matrix(a):
    a = np.asarray(a, dtype=float)
    return [[int(v) if float(v).is_integer() else -1 for v in row] for row in a]


def _detector(H, W):
    det = px.make_detector("ccd", H, W)
    det.set_readout(times=[1.0], start_time=0.0)
    det.readout_properties.time = 1.0
    det.readout_properties.time_step = 1.0
    det.empty()
    return det


def equiv_routes(arr, placed, f, wd, H, W, pos, align):
    """(name, fn(fitted: bool) -> tuple of arrays) for the models that take a map with position / align."""
    from pyxel.models.charge_collection import fixed_pattern_noise, persistence
    from pyxel.models.charge_generation import conversion_with_qe_map
    scale = float(max(1.0, np.abs(arr).max()))
    f_unit = os.path.join(wd, "unit.npy"); np.save(f_unit, arr / scale)                 # values in [0, 1]
    f_fit = os.path.join(wd, "fitted.npy"); np.save(f_fit, placed)
    f_fit_unit = os.path.join(wd, "fitted_unit.npy"); np.save(f_fit_unit, placed / scale)
    f_half = os.path.join(wd, "half.npy"); np.save(f_half, np.full((H, W), 0.5))

    def kw(fitted, prefix=""):
        return ({prefix + "position": (0, 0), prefix + "align": None} if fitted
                else {prefix + "position": pos, prefix + "align": align})

    def qe(fitted):
        det = _detector(H, W)
        det.photon.array = np.full((H, W), 1000.0)
        conversion_with_qe_map(det, filename=f_fit_unit if fitted else f_unit, binomial_sampling=False, **kw(fitted))
        return (det.charge.array,)

    def fpn(fitted):
        det = _detector(H, W)
        det.pixel.array = np.full((H, W), 1000.0)
        fixed_pattern_noise(det, filename=f_fit_unit if fitted else f_unit, **kw(fitted))
        return (det.pixel.array,)

    def _cmos():
        det = px.make_detector("cmos", H, W)
        det.set_readout(times=[1.0], start_time=0.0)
        det.readout_properties.time = 1.0
        det.readout_properties.time_step = 1.0
        det.empty()
        det.pixel.array = np.full((H, W), 1000.0)
        return det

    def pers_cap(fitted):
        det = _cmos()
        persistence(det, trap_time_constants=[1.0], trap_proportions=[1.0], trap_densities_filename=f_half,
                    trap_capacities_filename=f_fit if fitted else f, **kw(fitted, "trap_capacities_"))
        return (np.array(det.persistence.trapped_charge_array), det.pixel.array)

    def pers_dens(fitted):
        det = _cmos()
        persistence(det, trap_time_constants=[1.0], trap_proportions=[1.0],
                    trap_densities_filename=f_fit_unit if fitted else f_unit, **kw(fitted, "trap_densities_"))
        return (np.array(det.persistence.trapped_charge_array), det.pixel.array)

    return [("equiv:conversion_with_qe_map", qe), ("equiv:fixed_pattern_noise", fpn),
            ("equiv:persistence.capacities", pers_cap), ("equiv:persistence.densities", pers_dens)]


def place_job(case) -> dict:
    from pyxel.models.charge_generation import load_charge
    from pyxel.models.photon_collection import load_image
    from pyxel.util.image import fit_into_array
    h, w, H, W, oy, ox, align = (case[k] for k in ("h", "w", "H", "W", "oy", "ox", "align"))
    wd = tempfile.mkdtemp(prefix="place_", dir=os.environ.get("VERIF_WORK", px.VERIF + "/.work"))
    events = []
    arr = in_array(h, w)
    base = {"e": "place", "h": h, "w": w, "H": H, "W": W, "oy": oy, "ox": ox, "align": align}
    try:
        with warnings.catch_warnings():
            warnings.simplefilter("ignore")
            routes = []
            routes.append(("fit_into_array", lambda: fit_into_array(arr, (H, W), relative_position=(oy, ox),
                                                                     align=align or None)))
            f = os.path.join(wd, f"in_{h}x{w}.npy")
            np.save(f, arr)

            def via_image():
                det = _detector(H, W)
                load_image(det, image_file=f, position=(oy, ox), align=align or None, convert_to_photons=False)
                return det.photon.array

            def via_charge():
                det = _detector(H, W)
                load_charge(det, filename=f, position=(oy, ox), align=align or None)
                return det.charge.array

            routes += [("load_image", via_image), ("load_charge", via_charge)]
            placed = None
            for name, fn in routes:
                try:
                    out = fn()
                    events.append(dict(base, out="ok", matrix=_matrix(out), route=name))
                    if name == "load_image":
                        placed = np.asarray(out, dtype=float)
                except ValueError as e:
                    events.append(dict(base, out="rejected", matrix=[], route=name, why=str(e)[:80]))
            # every other model that fits a map onto the detector must behave exactly as if it had been given the
            # already fitted map (what load_image placed, validated above) at offset (0, 0)
            if placed is not None and case.get("equiv", True):
                for name, fn in equiv_routes(arr, placed, f, wd, H, W, (oy, ox), align or None):
                    try:
                        a, b = fn(False), fn(True)
                        same = all(np.array_equal(x, y, equal_nan=True) for x, y in zip(a, b))
                        events.append(dict(base, out="ok", matrix=[], route=name, equiv=bool(same)))
                    except ValueError as e:
                        # an explicit refusal (these models do not accept maps smaller than the detector): not a
                        # wrong placement
                        events.append(dict(base, out="ok", matrix=[], route=name, equiv=True, why=f"refused: {e!r}"[:120]))
                    except Exception as e:            # noqa: BLE001
                        events.append(dict(base, out="ok", matrix=[], route=name, equiv=False, why=f"failed: {e!r}"[:160]))
        return {"events": events, "case": {"kind": "place", "case": case}}
    finally:
        shutil.rmtree(wd, ignore_errors=True)


def cache_job(job) -> dict:
    """A history of rewrites and loads of two files in one process."""
    from pyxel.models.charge_generation import load_charge
    from pyxel.models.photon_collection import load_image
    wd = tempfile.mkdtemp(prefix="cache_", dir=os.environ.get("VERIF_WORK", px.VERIF + "/.work"))
    events = []
    version = {"a": 1, "b": 1}
    ext = job.get("ext", "npy")
    paths = {p: os.path.join(wd, f"file_{p}.{ext}") for p in ("a", "b")}

    def write(p):
        data = np.full((2, 3), float(version[p]))
        if ext == "npy":
            np.save(paths[p], data)
        elif ext == "fits":
            from astropy.io import fits
            fits.writeto(paths[p], data, overwrite=True)
        else:
            np.savetxt(paths[p], data, delimiter=",")

    try:
        with warnings.catch_warnings():
            warnings.simplefilter("ignore")
            for p in ("a", "b"):
                write(p)
            for k, (op, p) in enumerate(job["ops"]):
                if op == "write":
                    version[p] += 1
                    write(p)
                    events.append({"e": "write", "path": p})
                else:
                    det = _detector(2, 3)
                    if (k + job.get("variant", 0)) % 2 == 0:
                        load_charge(det, filename=paths[p])
                        got = det.charge.array
                    else:
                        load_image(det, image_file=paths[p], convert_to_photons=False)
                        got = det.photon.array
                    v = float(np.asarray(got).flat[0])
                    events.append({"e": "load", "path": p, "got": int(v) if v.is_integer() else -1})
        return {"events": events, "case": {"kind": "cache", "job": job}}
    finally:
        shutil.rmtree(wd, ignore_errors=True)


DELIMS = {"tab": "\t", "space": " ", "comma": ",", "bar": "|", "semicolon": ";"}


def _equal(got, want, base):
    """Binary formats: bit for bit.  Text: the decimal parser of the reader may be off by an ulp
    (pandas' default float parser is not round-trip exact), which is numeric accuracy, not fidelity."""
    if base in ("npy", "fits"):
        return np.array_equal(got, want)
    return np.allclose(got, want, rtol=4e-16, atol=0.0)


def format_job(job) -> dict:
    import random

    import pyxel
    rng = random.Random(job["seed"])
    wd = tempfile.mkdtemp(prefix="fmt_", dir=os.environ.get("VERIF_WORK", px.VERIF + "/.work"))
    events = []
    try:
        with warnings.catch_warnings():
            warnings.simplefilter("ignore")
            h, w = rng.randint(1, 6), rng.randint(2, 6)
            kind = rng.choice(["ints", "floats", "negative", "tiny"])
            a = np.array([[rng.randint(0, 60000) for _ in range(w)] for _ in range(h)], dtype=float)
            if kind == "floats":
                a = a / 7.0
            elif kind == "negative":
                a = a - 30000.5
            elif kind == "tiny":
                a = a * 1e-12
            fmts = ["npy", "fits"] + [f"txt:{d}" for d in DELIMS] + [f"data:{d}" for d in ("comma", "space")]
            for fmt in fmts:
                base, _, dname = fmt.partition(":")
                f = os.path.join(wd, f"arr_{fmt.replace(':', '_')}.{base}")
                if base == "npy":
                    np.save(f, a)
                elif base == "fits":
                    from astropy.io import fits
                    fits.writeto(f, a, overwrite=True)
                else:
                    np.savetxt(f, a, delimiter=DELIMS[dname], fmt="%.17g")
                try:
                    img = np.asarray(pyxel.load_image(f), dtype=float)
                    same = img.shape == a.shape and bool(_equal(img, a, base))
                    why = "" if same else f"shape {img.shape} vs {a.shape}"
                except Exception as e:
                    same, why = False, f"{type(e).__name__}: {str(e)[:60]}"
                events.append({"e": "format", "fmt": "image:" + fmt, "same": bool(same), "why": why, "shape": [h, w], "values": kind})
                if base != "fits":
                    try:
                        tab = np.asarray(pyxel.load_table(f).to_numpy(), dtype=float)
                        same = tab.shape == a.shape and bool(_equal(tab, a, base))
                        why = "" if same else f"shape {tab.shape} vs {a.shape}"
                    except Exception as e:
                        same, why = False, f"{type(e).__name__}: {str(e)[:60]}"
                    events.append({"e": "format", "fmt": "table:" + fmt, "same": bool(same), "why": why, "shape": [h, w], "values": kind})
        return {"events": events, "case": {"kind": "format", "job": job}}
    finally:
        shutil.rmtree(wd, ignore_errors=True)
