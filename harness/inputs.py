"""C20: placements, cached loads and format round trips with the real loaders."""

from __future__ import annotations

import os
import shutil
import tempfile
import warnings

import numpy as np

from harness import px


def in_array(h, w):
    return (np.arange(h * w, dtype=float).reshape(h, w) + 1.0)


def _matrix(a):
    a = np.asarray(a, dtype=float)
    return [[int(v) if float(v).is_integer() else -1 for v in row] for row in a]


def _detector(H, W):
    det = px.make_detector("ccd", H, W)
    det.set_readout(times=[1.0], start_time=0.0)
    det.readout_properties.time = 1.0
    det.readout_properties.time_step = 1.0
    det.empty()
    return det


def place_job(case) -> dict:
    from pyxel.models.charge_generation import load_charge
    from pyxel.models.photon_collection import load_image
    from pyxel.util.image import fit_into_array
    h, w, H, W, oy, ox, align = (case[k] for k in ("h", "w", "H", "W", "oy", "ox", "align"))
    wd = tempfile.mkdtemp(prefix="place_", dir=os.environ.get("VERIF_WORK", px.VERIF + "/.work"))
    events = []
    arr = in_array(h, w)
    base = {"e": "place", "h": h, "w": w, "H": H, "W": W, "oy": oy, "ox": ox, "align": align}
    try:
        with warnings.catch_warnings():
            warnings.simplefilter("ignore")
            routes = []
            routes.append(("fit_into_array", lambda: fit_into_array(arr, (H, W), relative_position=(oy, ox),
                                                                     align=align or None)))
            f = os.path.join(wd, f"in_{h}x{w}.npy")
            np.save(f, arr)

            def via_image():
                det = _detector(H, W)
                load_image(det, image_file=f, position=(oy, ox), align=align or None, convert_to_photons=False)
                return det.photon.array

            def via_charge():
                det = _detector(H, W)
                load_charge(det, filename=f, position=(oy, ox), align=align or None)
                return det.charge.array

            routes += [("load_image", via_image), ("load_charge", via_charge)]
            for name, fn in routes:
                try:
                    out = fn()
                    events.append(dict(base, out="ok", matrix=_matrix(out), route=name))
                except ValueError as e:
                    events.append(dict(base, out="rejected", matrix=[], route=name, why=str(e)[:80]))
        return {"events": events, "case": {"kind": "place", "case": case}}
    finally:
        shutil.rmtree(wd, ignore_errors=True)


def cache_job(job) -> dict:
    """A history of rewrites and loads of two files in one process."""
    from pyxel.models.charge_generation import load_charge
    from pyxel.models.photon_collection import load_image
    wd = tempfile.mkdtemp(prefix="cache_", dir=os.environ.get("VERIF_WORK", px.VERIF + "/.work"))
    events = []
    version = {"a": 1, "b": 1}
    ext = job.get("ext", "npy")
    paths = {p: os.path.join(wd, f"file_{p}.{ext}") for p in ("a", "b")}

    def write(p):
        data = np.full((2, 3), float(version[p]))
        if ext == "npy":
            np.save(paths[p], data)
        elif ext == "fits":
            from astropy.io import fits
            fits.writeto(paths[p], data, overwrite=True)
        else:
            np.savetxt(paths[p], data, delimiter=",")

    try:
        with warnings.catch_warnings():
            warnings.simplefilter("ignore")
            for p in ("a", "b"):
                write(p)
            for k, (op, p) in enumerate(job["ops"]):
                if op == "write":
                    version[p] += 1
                    write(p)
                    events.append({"e": "write", "path": p})
                else:
                    det = _detector(2, 3)
                    if (k + job.get("variant", 0)) % 2 == 0:
                        load_charge(det, filename=paths[p])
                        got = det.charge.array
                    else:
                        load_image(det, image_file=paths[p], convert_to_photons=False)
                        got = det.photon.array
                    v = float(np.asarray(got).flat[0])
                    events.append({"e": "load", "path": p, "got": int(v) if v.is_integer() else -1})
        return {"events": events, "case": {"kind": "cache", "job": job}}
    finally:
        shutil.rmtree(wd, ignore_errors=True)


DELIMS = {"tab": "\t", "space": " ", "comma": ",", "bar": "|", "semicolon": ";"}


def _equal(got, want, base):
    """Binary formats: bit for bit.  Text: the decimal parser of the reader may be off by an ulp
    (pandas' default float parser is not round-trip exact), which is numeric accuracy, not fidelity."""
    if base in ("npy", "fits"):
        return np.array_equal(got, want)
    return np.allclose(got, want, rtol=4e-16, atol=0.0)


def format_job(job) -> dict:
    import random

    import pyxel
    rng = random.Random(job["seed"])
    wd = tempfile.mkdtemp(prefix="fmt_", dir=os.environ.get("VERIF_WORK", px.VERIF + "/.work"))
    events = []
    try:
        with warnings.catch_warnings():
            warnings.simplefilter("ignore")
            h, w = rng.randint(1, 6), rng.randint(2, 6)
            kind = rng.choice(["ints", "floats", "negative", "tiny"])
            a = np.array([[rng.randint(0, 60000) for _ in range(w)] for _ in range(h)], dtype=float)
            if kind == "floats":
                a = a / 7.0
            elif kind == "negative":
                a = a - 30000.5
            elif kind == "tiny":
                a = a * 1e-12
            fmts = ["npy", "fits"] + [f"txt:{d}" for d in DELIMS] + [f"data:{d}" for d in ("comma", "space")]
            for fmt in fmts:
                base, _, dname = fmt.partition(":")
                f = os.path.join(wd, f"arr_{fmt.replace(':', '_')}.{base}")
                if base == "npy":
                    np.save(f, a)
                elif base == "fits":
                    from astropy.io import fits
                    fits.writeto(f, a, overwrite=True)
                else:
                    np.savetxt(f, a, delimiter=DELIMS[dname], fmt="%.17g")
                try:
                    img = np.asarray(pyxel.load_image(f), dtype=float)
                    same = img.shape == a.shape and bool(_equal(img, a, base))
                    why = "" if same else f"shape {img.shape} vs {a.shape}"
                except Exception as e:
                    same, why = False, f"{type(e).__name__}: {str(e)[:60]}"
                events.append({"e": "format", "fmt": "image:" + fmt, "same": bool(same), "why": why, "shape": [h, w], "values": kind})
                if base != "fits":
                    try:
                        tab = np.asarray(pyxel.load_table(f).to_numpy(), dtype=float)
                        same = tab.shape == a.shape and bool(_equal(tab, a, base))
                        why = "" if same else f"shape {tab.shape} vs {a.shape}"
                    except Exception as e:
                        same, why = False, f"{type(e).__name__}: {str(e)[:60]}"
                    events.append({"e": "format", "fmt": "table:" + fmt, "same": bool(same), "why": why, "shape": [h, w], "values": kind})
        return {"events": events, "case": {"kind": "format", "job": job}}
    finally:
        shutil.rmtree(wd, ignore_errors=True)
