"""Recorder for PyxelReadout: operation histories executed on a real `pyxel.exposure.Readout`."""

from __future__ import annotations

import numpy as np

TICK = 0.5
BAD = 999999


def ticks(x) -> int:
    v = float(x) / TICK
    return int(v) if v == int(v) and abs(v) < BAD else BAD


def project(r) -> dict:
    if r is None:
        return {"live": 0, "times": [0], "start": 0, "nd": False, "tds": False, "steps": [0], "n": 0, "linear": True}
    steps = [ticks(s) for s in np.asarray(r.steps).ravel()]
    return {"live": 1, "times": [ticks(t) for t in np.asarray(r.times).ravel()], "start": ticks(r.start_time),
            "nd": bool(r.non_destructive), "tds": bool(r.time_domain_simulation), "steps": steps,
            "n": int(r._num_steps), "linear": bool(r._times_linear),
            # what the consumers of the object iterate over (time_step_it) must be the same pairs
            "it": [[ticks(t), ticks(s)] for t, s in r.time_step_it()]}


def as_times(ts, variant: int):
    vals = [t * TICK for t in ts]
    how = variant % 4
    if len(vals) == 1 and how == 1:
        return vals[0]                      # a scalar
    if how == 2:
        return tuple(vals)
    if how == 3 and vals:
        return np.array(vals)
    return vals


def run_history(case: dict) -> dict:
    from pyxel.exposure import Readout

    variant = case.get("variant", 0)
    r, events = None, []
    for k, op in enumerate(case["ops"]):
        ev = {key: op[key] for key in ("op", "given", "times", "hasS", "start", "hasN", "nd")}
        old = r
        try:
            if op["op"] == "construct":
                kw = {"start_time": op["start"] * TICK, "non_destructive": op["nd"]}
                if op["given"]:
                    tv = as_times(op["times"], variant + k)
                    kw["times"] = tv.tolist() if isinstance(tv, np.ndarray) else tv   # the constructor takes no ndarray
                r = Readout(**kw)
            elif op["op"] == "set_times":
                r.times = as_times(op["times"], variant + k)
            elif op["op"] == "set_start":
                r.start_time = op["start"] * TICK
            elif op["op"] == "set_nd":
                r.non_destructive = op["nd"]
            elif op["op"] == "replace":
                kw = {}
                if op["given"]:
                    tv = as_times(op["times"], variant + k)
                    kw["times"] = tv.tolist() if isinstance(tv, np.ndarray) else tv
                if op["hasS"]:
                    kw["start_time"] = op["start"] * TICK
                if op["hasN"]:
                    kw["non_destructive"] = op["nd"]
                new = r.replace(**kw)
                ev["fresh"] = new is not r
                r = new
            ev["out"] = "ok"
        except (ValueError, TypeError) as exc:
            ev["out"], ev["exc"] = "error", f"{type(exc).__name__}: {exc}"[:160]
        after = project(r)
        ev["it_ok"] = after.pop("it", None) in (None, [list(p) for p in zip(after["times"], after["steps"])])
        ev["after"] = after
        o = project(old)
        o.pop("it", None)
        ev["old"] = o
        events.append(ev)
        if r is None:
            break
    return {"case": case, "events": events}
