"""Check framework: context object, verdicts, evidence, known findings, CLI."""

from __future__ import annotations

import argparse
import copy
import hashlib
import importlib
import json
import os
import random
import sys
import time
import traceback
from concurrent.futures import ProcessPoolExecutor
from multiprocessing import get_context
from pathlib import Path

VERIF = Path(__file__).resolve().parent.parent
sys.path.insert(0, str(VERIF))

from harness import tlc  # noqa: E402
from harness.tlc import MachineryError  # noqa: E402

LEVEL = "model_checking"


def load_findings() -> list:
    f = VERIF / "known_findings.json"
    if not f.exists():
        return []
    return json.loads(f.read_text()).get("findings", [])


def _match(pattern: dict, info: dict) -> bool:
    """Every key of the finding's match predicate must be satisfied by the violation."""
    for k, want in pattern.items():
        if k.startswith("min_"):
            if info.get(k[4:]) is None or info[k[4:]] < want:
                return False
        elif k.startswith("max_"):
            if info.get(k[4:]) is None or info[k[4:]] > want:
                return False
        elif k.endswith("_in"):
            if info.get(k[:-3]) not in want:
                return False
        elif info.get(k) != want:
            return False
    return True


class Ctx:
    def __init__(self, prop: str, tier: str, seed: int):
        self.prop = prop
        self.tier = tier
        self.quick = tier == "quick"
        self.seed = seed
        self.rng = random.Random(seed * 7919 + sum(map(ord, prop)))
        self.t0 = time.time()
        self.cov: dict = {"states": 0, "transitions": 0, "traces_validated_against_impl": 0,
                          "samples": [], "model_checks": [], "replayed_cases": 0,
                          "recorded_random": 0, "negative_controls_rejected": 0,
                          "coverage_actions": {}, "exhaustive": False}
        self.assumptions: list = []
        self.violations: list = []
        self.known_hits: dict = {}
        self.findings = [f for f in load_findings() if f.get("property") == prop]
        self.replay_dir = tlc.workdir() / "replays"
        self.replay_dir.mkdir(parents=True, exist_ok=True)
        self.notes: dict = {}

    # ---- accumulation
    def tick(self, label: str):
        now = time.time()
        self.notes.setdefault("phase_seconds", {})[label] = round(now - getattr(self, "_last_tick", self.t0), 1)
        self._last_tick = now

    def pick(self, quick, thorough):
        return quick if self.quick else thorough

    def sample(self, obj, limit: int = 4):
        if len(self.cov["samples"]) < limit:
            self.cov["samples"].append(obj)

    def add_model_check(self, name: str, res, exhaustive_note: str = ""):
        self.cov["states"] += res.distinct
        self.cov["transitions"] += res.generated
        self.cov["model_checks"].append({"instance": name, "distinct_states": res.distinct,
                                         "states_generated": res.generated, "depth": res.depth,
                                         "wall_s": round(res.wall_s, 1), "space": exhaustive_note})
        for a, n in res.coverage.items():
            self.cov["coverage_actions"][a] = self.cov["coverage_actions"].get(a, 0) + n

    def model_check(self, module: str, cfg: str, *, required_actions=None, export=False,
                    env=None, timeout=900, note="", workers="auto"):
        """Model-check an instance.  A violated invariant of the *design* is a
        machinery failure of this framework (the specification must satisfy its
        own properties); returns (result, exported cases or None)."""
        tag = f"{self.prop}_{cfg.replace('.cfg', '')}"
        out = tlc.workdir() / f"export_{tag}.json" if export else None
        res = tlc.check_model(module, tag=tag, cfg=cfg, env=env, timeout=timeout,
                              required_actions=required_actions, export=out, workers=workers)
        if res.violated:
            raise MachineryError(f"specification instance {cfg} violates {res.violated}:\n"
                                 f"{res.output[-2500:]}")
        self.add_model_check(cfg, res, note)
        self.tick(f"tlc:{cfg}")
        cases = None
        if out is not None:
            cases = json.loads(out.read_text())
            out.unlink()
        return res, cases

    # ---- trace validation with negative control
    def validate(self, module: str, traces: list, *, label: str, corrupt=None, cfg=None,
                 timeout=1200, batch: int = 4000):
        """Validate recorded traces; returns list of (index, progress) rejected.
        `corrupt(trace) -> trace|None` builds the negative control from one trace."""
        rejected = []
        n_ok = 0
        # batches bounded by number of traces and of events; validated by concurrent TLC processes
        chunks, cur, nev, start0 = [], [], 0, 0
        for k, tr in enumerate(traces):
            ne = len(tr.get("events", ())) if isinstance(tr, dict) else 1
            if cur and (len(cur) >= batch or nev + ne > 40000):
                chunks.append((start0, cur))
                cur, nev, start0 = [], 0, k
            cur.append(tr)
            nev += ne
        if cur:
            chunks.append((start0, cur))

        def one(item):
            start, chunk = item
            payload = list(chunk)
            control_at = None
            if corrupt is not None:
                for k, tr in enumerate(chunk):
                    bad = corrupt(copy.deepcopy(tr))
                    if bad is not None:
                        payload.append(bad)
                        control_at = len(payload)
                        break
            acc, prog, res = tlc.validate_traces(module, payload, tag=f"{self.prop}_{label}_{start}",
                                                 cfg=cfg, timeout=timeout)
            return start, chunk, control_at, acc, prog, res

        if len(chunks) > 1:
            from concurrent.futures import ThreadPoolExecutor
            with ThreadPoolExecutor(max_workers=6) as ex:
                results = list(ex.map(one, chunks))
        else:
            results = [one(c) for c in chunks]
        for start, chunk, control_at, acc, prog, res in results:
            if res.violated:
                # an invariant of the specification failed on a recorded trace (that trace is not accepted)
                self.notes.setdefault("trace_invariant_violations", []).append(
                    {"invariants": sorted(set(res.violated)),
                     "traces": {start + k - 1: v for k, v in getattr(res, "invariant_tids", {}).items() if k <= len(chunk)}})
            if control_at is not None:
                if control_at in acc:
                    raise MachineryError(f"negative control accepted by {module} ({label})")
                self.cov["negative_controls_rejected"] += 1
            for k in range(1, len(chunk) + 1):
                if k in acc:
                    n_ok += 1
                else:
                    rejected.append((start + k - 1, prog.get(k, 0)))
            self.cov["trace_validation_states"] = self.cov.get("trace_validation_states", 0) + res.distinct
        self.cov["traces_validated_against_impl"] += n_ok
        self.tick(f"validate:{label}")
        return rejected

    # ---- verdicts
    def violation(self, signature: str, what: str, case, info: dict | None = None):
        self.violations.append({"signature": signature, "what": what, "case": case,
                                "info": info or {}})

    def finish(self) -> int:
        out_lines = []
        new = []
        for v in self.violations:
            hit = None
            for f in self.findings:
                if f.get("status") == "known" and (f.get("signature") == v["signature"]
                                                   or v["signature"] in f.get("signatures", [])) \
                        and _match(f.get("match", {}), v["info"]):
                    hit = f
                    break
            if hit is not None:
                self.known_hits.setdefault(hit.get("signature") or hit["signatures"][0], [hit, 0])[1] += 1
            else:
                new.append(v)
        for sig, (f, n) in self.known_hits.items():
            out_lines.append(f"KNOWN-FINDING: property={self.prop} {f['what']} [{sig}; {n} case(s) this run]")
        seen_sig = set()
        for v in new:
            h = hashlib.sha1(json.dumps(v["case"], sort_keys=True, default=repr).encode()).hexdigest()[:10]
            path = self.replay_dir / f"{self.prop}-{v['signature'].replace('/', '_')}-{h}.json"
            path.write_text(json.dumps({"property": self.prop, "signature": v["signature"],
                                        "what": v["what"], "info": v["info"], "case": v["case"]},
                                       indent=1, default=repr))
            if v["signature"] in seen_sig and len(seen_sig) > 20:
                continue
            seen_sig.add(v["signature"])
            out_lines.append(f"VIOLATION property={self.prop} replay={path}")
            out_lines.append(f"  clause={v['signature']}: {v['what']}")
        self.write_evidence(len(new))
        # printed last, after all child output
        sys.stdout.flush()
        for ln in out_lines[:60]:
            print(ln)
        if len(out_lines) > 60:
            print(f"  ... {len(out_lines) - 60} more lines")
        print(f"{self.prop} {self.tier}: states={self.cov['states']} transitions={self.cov['transitions']} "
              f"traces={self.cov['traces_validated_against_impl']} replayed={self.cov['replayed_cases']} "
              f"violations={len(new)} known={sum(n for _, n in self.known_hits.values())} "
              f"wall={time.time() - self.t0:.0f}s")
        return 1 if new else 0

    def write_evidence(self, nviol: int):
        cov = dict(self.cov)
        cov["states"] = max(int(cov["states"]), 1)
        cov["transitions"] = max(int(cov["transitions"]), 1)
        if not cov["samples"]:
            cov["samples"] = ["(no sample recorded)"]
        cov["known_findings_hit"] = {s: n for s, (f, n) in self.known_hits.items()}
        cov.update(self.notes)
        ev = {"property_id": self.prop, "tier": self.tier, "seed": self.seed, "level": LEVEL,
              "coverage": cov, "assumptions": self.assumptions,
              "wall_s": round(time.time() - self.t0, 2), "violations": nviol}
        d = Path(os.environ.get("VERIF_EVIDENCE") or (VERIF / "evidence"))   # scratch runs (bin/seedtest) write elsewhere
        d.mkdir(parents=True, exist_ok=True)
        (d / f"{self.prop}.json").write_text(json.dumps(ev, indent=1, default=repr))


# ---------------------------------------------------------------------------
# process pool for executing cases against the real code

_POOL = None


def pool(workers: int | None = None) -> ProcessPoolExecutor:
    global _POOL
    if _POOL is None:
        n = workers or min(16, os.cpu_count() or 4)
        _POOL = ProcessPoolExecutor(max_workers=n, mp_context=get_context("fork"))
    return _POOL


def pmap(fn, items, chunksize: int = 8):
    """Map in the process pool.  A pool whose child was killed (memory pressure on a loaded machine) is
    rebuilt with fewer workers and the batch is run again; the last attempt runs in this process."""
    global _POOL
    from concurrent.futures.process import BrokenProcessPool
    items = list(items)
    if len(items) <= 4:
        return [fn(x) for x in items]
    for workers in (None, 6, 2):
        try:
            return list(pool(workers).map(fn, items, chunksize=chunksize))
        except BrokenProcessPool:
            try:
                _POOL.shutdown(wait=False, cancel_futures=True)
            except Exception:
                pass
            _POOL = None
    return [fn(x) for x in items]


def main(argv=None) -> int:
    ap = argparse.ArgumentParser()
    ap.add_argument("prop")
    ap.add_argument("--tier", default=os.environ.get("VERIF_TIER", "quick"), choices=["quick", "thorough"])
    ap.add_argument("--replay", default=None)
    args = ap.parse_args(argv)
    seed = int(os.environ.get("VERIF_SEED", "0") or 0)
    os.environ["PYTHONPATH"] = (os.environ.get("VERIF_REPO", "/repo") + os.pathsep + str(VERIF) + os.pathsep
                                + os.environ.get("PYTHONPATH", ""))
    os.environ.setdefault("PYTHONHASHSEED", "0")
    os.environ.setdefault("TQDM_DISABLE", "1")
    os.environ.setdefault("NUMBA_CACHE_DIR", str(tlc.workdir() / "numba_cache"))
    mod = importlib.import_module(f"harness.drivers.{args.prop}")
    ctx = Ctx(args.prop, args.tier, seed)
    try:
        if args.replay:
            return mod.replay(ctx, json.loads(Path(args.replay).read_text()))
        for old in ctx.replay_dir.glob(f"{args.prop}-*.json"):
            old.unlink()
        mod.run(ctx)
        return ctx.finish()
    except MachineryError as exc:
        print(f"MACHINERY-FAILURE property={args.prop}: {exc}", file=sys.stderr)
        return 2
    except Exception:
        traceback.print_exc()
        print(f"MACHINERY-FAILURE property={args.prop}: unexpected exception in the harness",
              file=sys.stderr)
        return 2
    finally:
        if _POOL is not None:
            _POOL.shutdown(wait=False, cancel_futures=True)


if __name__ == "__main__":
    sys.exit(main())
