"""Shared binding between the TLA+ abstraction and real pyxel objects.

* quiet import of pyxel from the repository under test (VERIF_REPO, default /repo)
* detector builders
* the *single* projection  real object -> abstract state  (arrays -> integer
  levels, times -> ticks, DataTree -> result record, exception -> record)
* construction of pipelines / readouts / YAML documents from a specification
  configuration (`cfg` of PyxelPipeline)
"""

from __future__ import annotations

import json
import os
import re
import sys
import warnings
from pathlib import Path

REPO = os.environ.get("VERIF_REPO", "/repo")
if REPO not in sys.path:
    sys.path.insert(0, REPO)
VERIF = str(Path(__file__).resolve().parent.parent)
if VERIF not in sys.path:
    sys.path.insert(0, VERIF)

os.environ.setdefault("TQDM_DISABLE", "1")
warnings.filterwarnings("ignore")
import logging  # noqa: E402

logging.disable(logging.CRITICAL)

import numpy as np  # noqa: E402

EMPTY = -1
NONUNIFORM = -2
BADTICK = -99999
OFF64 = 2 ** 64 - 2 ** 20    # see level_array
BADLABEL = -3      # a result slice that is not labelled with row / column indices
TICK = 1024  # ticks per second

GROUPS = ("scene_generation", "photon_collection", "phasing", "charge_generation",
          "charge_collection", "charge_transfer", "charge_measurement", "signal_transfer",
          "readout_electronics", "data_processing")   # copied from the statement of C01
ARRAY_BUCKETS = ("photon", "charge", "pixel", "signal", "image")
BUCKETS = ARRAY_BUCKETS + ("scene", "data")


def pyxel():
    import pyxel as _p
    return _p


# --------------------------------------------------------------------------
# detectors

def make_detector(kind: str = "ccd", rows: int = 2, cols: int = 3, **geo_kw):
    from pyxel.detectors import (APD, CCD, CMOS, MKID, APDCharacteristics, APDGeometry,
                                 CCDGeometry, Characteristics, CMOSGeometry, Environment,
                                 MKIDGeometry)
    env = Environment(temperature=200.0)
    geo_kw.setdefault("pixel_vert_size", 10.0)
    geo_kw.setdefault("pixel_horz_size", 16.0)
    geo_kw.setdefault("total_thickness", 40.0)
    def chars():
        return Characteristics(quantum_efficiency=0.9, charge_to_volt_conversion=1e-6, pre_amplification=10.0,
                               full_well_capacity=10000.0, adc_bit_resolution=16, adc_voltage_range=(0.0, 10.0))
    if kind == "ccd":
        return CCD(geometry=CCDGeometry(row=rows, col=cols, **geo_kw), environment=env,
                   characteristics=chars())
    if kind == "cmos":
        return CMOS(geometry=CMOSGeometry(row=rows, col=cols, **geo_kw), environment=env,
                    characteristics=chars())
    if kind == "mkid":
        return MKID(geometry=MKIDGeometry(row=rows, col=cols, **geo_kw), environment=env,
                    characteristics=chars())
    if kind == "apd":
        return APD(geometry=APDGeometry(row=rows, col=cols, **geo_kw), environment=env,
                   characteristics=APDCharacteristics(roic_gain=1.0, avalanche_gain=2.0,
                                                      pixel_reset_voltage=5.0))
    raise ValueError(kind)


# --------------------------------------------------------------------------
# projection: arrays <-> integer levels

def ramp(shape) -> np.ndarray:
    r, c = shape
    return np.arange(r * c, dtype=float).reshape(r, c)


def level_array(level: int, shape, dtype="float64", ramped: bool = True) -> np.ndarray:
    """The array that stands for integer `level` in a bucket."""
    dt = np.dtype(dtype)
    if dt.kind == "u":
        arr = np.full(shape, level, dtype=np.int64) + (ramp(shape).astype(np.int64) if ramped else 0)
        if dt.itemsize == 8:
            # 64-bit codes live at the top of their range: level n is stored as OFF64 + n, so that a result which
            # went through floating point (53 bits of mantissa) cannot reproduce them
            return (arr.astype(np.uint64) + np.uint64(OFF64)).astype(dt)
        return arr.astype(dt)
    arr = np.full(shape, float(level)) + (ramp(shape) / 8.0 if ramped else 0.0)
    return arr.astype(dt)


def level_of(arr) -> int:
    """Inverse of level_array: EMPTY for None, NONUNIFORM when no level fits."""
    if arr is None:
        return EMPTY
    a = np.asarray(arr)
    if a.ndim != 2 or a.size == 0:
        return NONUNIFORM
    if a.dtype.kind in "ui":
        if a.dtype == np.uint64:
            if (a >= np.uint64(OFF64)).all():
                a = a - np.uint64(OFF64)
            elif (a >= np.uint64(2 ** 62)).any():
                return NONUNIFORM
        a = a.astype(np.int64)
        for cand in (a - ramp(a.shape).astype(np.int64), a):
            if (cand == cand.flat[0]).all():
                return int(cand.flat[0])
        return NONUNIFORM
    if a.dtype.kind != "f":
        return NONUNIFORM
    a = a.astype(float)
    if not np.isfinite(a).all():
        return NONUNIFORM
    for cand in (a - ramp(a.shape) / 8.0, a):
        v = cand.flat[0]
        if (cand == v).all() and float(v).is_integer():
            return int(v)
    return NONUNIFORM


def to_ticks(x) -> int:
    v = float(x) * TICK
    return int(v) if v == int(v) else BADTICK


def scene_token(scene) -> int:
    data = scene.data if hasattr(scene, "data") else scene
    try:
        if data is None or "list" not in data:
            return EMPTY
        return int(data["list/0"]["weight"].values[0])
    except Exception:
        return NONUNIFORM


def make_scene_source(token: int):
    import xarray as xr
    return xr.Dataset(
        {"x": ("ref", [0.0]), "y": ("ref", [0.0]), "weight": ("ref", [float(token)]),
         "flux": (("ref", "wavelength"), [[1.0, 1.0, 1.0]])},
        coords={"ref": [0], "wavelength": [500.0, 510.0, 520.0]})   # same grid as the 3-D photon probe


def data_token(tree) -> int:
    """Token of a processed-data tree written by set_data_token: the value, provided the groups that hold no
    data variable (coordinates only, attributes only, nothing at all) are there as well."""
    try:
        if tree is None or "probe" not in tree:
            return EMPTY
        tok = int(tree["probe"]["tok"].values)
        ok = ("probe_axis" in tree and [int(v) for v in tree["probe_axis"].to_dataset().coords["t"].values] == [0, 1, tok]
              and "probe_attrs" in tree and int(tree["probe_attrs"].attrs.get("tok", -7)) == tok
              and "probe_leaf" in tree)
        return tok if ok else NONUNIFORM
    except Exception:
        return NONUNIFORM


def set_data_token(detector, token: int) -> None:
    import xarray as xr
    detector.data["/probe"] = xr.DataTree(xr.Dataset({"tok": ((), token)}))
    detector.data["/probe_axis"] = xr.DataTree(xr.Dataset(coords={"t": [0, 1, token]}))      # coordinates only
    detector.data["/probe_attrs"] = xr.DataTree(xr.Dataset(attrs={"tok": token}))           # attributes only
    detector.data["/probe_leaf"] = xr.DataTree()                                            # an empty leaf


def project_buckets(detector) -> dict:
    """Abstract bucket contents of a real detector (never uses pyxel's ==)."""
    out = {}
    ph = detector.photon._array
    if ph is not None and not isinstance(ph, np.ndarray):   # 3-D DataArray
        vals = np.asarray(ph.values)
        lv = {level_of(vals[k] - k / 64.0) for k in range(vals.shape[0])}
        out["photon"] = lv.pop() if len(lv) == 1 else NONUNIFORM
    else:
        out["photon"] = level_of(ph)
    ch = detector.charge
    out["charge"] = level_of(ch.array)
    out["pixel"] = level_of(detector.pixel._array)
    out["signal"] = level_of(detector.signal._array)
    out["image"] = level_of(detector.image._array)
    out["scene"] = scene_token(detector.scene)
    out["data"] = data_token(detector._data)
    return out


def project_clock(detector) -> dict:
    return {"time": to_ticks(detector.time), "step": to_ticks(detector.time_step),
            "abs": to_ticks(detector.absolute_time), "count": int(detector.pipeline_count),
            "first": bool(detector.is_first_readout), "last": bool(detector.is_last_readout)}


def load_prior(detector, prior: dict, imgdt: str = "uint16") -> None:
    """Leave `prior` contents in the detector, through its public interface."""
    shape = (detector.geometry.row, detector.geometry.col)
    if prior["photon"] != EMPTY:
        detector.photon.array = level_array(prior["photon"], shape)
    if prior["charge"] != EMPTY:
        detector.charge.add_charge_array(level_array(prior["charge"], shape))
    if prior["pixel"] != EMPTY:
        detector.pixel.array = level_array(prior["pixel"], shape)
    if prior["signal"] != EMPTY:
        detector.signal.array = level_array(prior["signal"], shape)
    if prior["image"] != EMPTY:
        detector.image.array = level_array(prior["image"], shape, imgdt)
    if prior["scene"] != EMPTY:
        detector.scene.add_source(make_scene_source(prior["scene"]))
    if prior["data"] != EMPTY:
        set_data_token(detector, prior["data"])


# --------------------------------------------------------------------------
# projection: returned DataTree -> result record

def _bucket_node(dt):
    if "bucket" in dt.children:
        return dt["/bucket"], "hier"
    return dt, "flat"


def project_result(dt, wl_shift: bool = False) -> dict:
    node, layout = _bucket_node(dt)
    ds = node.to_dataset()
    res: dict = {"layout": layout}
    times = [to_ticks(t) for t in ds["time"].values] if "time" in ds.coords else []
    for b in ARRAY_BUCKETS:
        if b not in ds.data_vars:
            res[b] = []
            continue
        var = ds[b]
        slices = []
        for k, lab in enumerate(times):
            sl = var.isel(time=k) if "time" in var.dims else var
            if "y" in sl.dims and "x" in sl.dims and sl.ndim == 2:
                ny, nx = sl.sizes["y"], sl.sizes["x"]
                # read through the labels, not the storage order; a result that is not labelled with the row
                # and column indices 0..n-1 has no readable content
                try:
                    arr = np.array([[sl.sel(y=yy, x=xx).item() for xx in range(nx)] for yy in range(ny)],
                                   dtype=sl.dtype)
                except (KeyError, ValueError):
                    slices.append({"label": lab, "level": BADLABEL})
                    continue
                if arr.dtype.kind == "f" and np.isnan(arr).all():
                    lvl = EMPTY
                else:
                    lvl = level_of(arr)
            elif "wavelength" in sl.dims and sl.ndim == 3:
                if [float(v) for v in sl["y"].values] != list(range(sl.sizes["y"])) or \
                        [float(v) for v in sl["x"].values] != list(range(sl.sizes["x"])):
                    slices.append({"label": lab, "level": BADLABEL})
                    continue
                vals = np.asarray(sl.transpose("wavelength", "y", "x").values)
                wl = [float(v) for v in sl["wavelength"].values]
                # wavelengths that this readout did not hold are NaN planes (the grids of the readouts are united)
                keep = [w for w in range(vals.shape[0]) if not np.isnan(vals[w]).all()]
                if not keep:
                    slices.append({"label": lab, "level": EMPTY})
                    continue
                w0 = k if wl_shift else 0
                if [wl[w] for w in keep] != [500.0 + 10 * (j + w0) for j in range(len(keep))]:
                    slices.append({"label": lab, "level": BADLABEL})
                    continue
                lv = {level_of(vals[w] - j / 64.0) for j, w in enumerate(keep)}
                lvl = lv.pop() if len(lv) == 1 else NONUNIFORM
            else:
                lvl = EMPTY
            slices.append({"label": lab, "level": lvl})
        res[b] = slices
    res["imgdt"] = str(ds["image"].dtype) if "image" in ds.data_vars else "none"
    res["scene"] = scene_token(dt["/scene"]) if "scene" in dt.children else EMPTY
    res["data"] = data_token(dt["/data"]) if "data" in dt.children else EMPTY
    return res


_NOTE = re.compile(r"raised in group '([^']*)' at model '([^']*)'")


def project_exception(exc: BaseException) -> dict:
    g = name = ""
    for note in getattr(exc, "__notes__", []) or []:
        m = _NOTE.search(note)
        if m:
            g, name = m.group(1), m.group(2)
    if isinstance(exc, KeyError) and exc.args:
        msg = str(exc.args[0])
    else:
        msg = str(exc)
    return {"exc": type(exc).__name__, "msg": msg, "g": g, "name": name,
            "notes": list(getattr(exc, "__notes__", []) or [])}


# --------------------------------------------------------------------------
# configuration -> real objects

PROBE = "harness.probes.pm.probe"


def model_user_args(args: str) -> dict:
    """The keyword arguments a configured model carries for the text `args`."""
    try:
        v = json.loads(args)
        if isinstance(v, dict):
            return v
    except Exception:
        pass
    return {"a": args}


def canon_args(kwargs: dict) -> str:
    """Inverse of model_user_args on *received* keyword arguments."""
    kw = {k: v for k, v in kwargs.items() if k != "_p"}
    if set(kw) == {"a"} and isinstance(kw["a"], str):
        return kw["a"]
    return json.dumps(kw, sort_keys=True, default=repr)


def model_dict(model: dict, imgdt: str, extra: dict | None = None) -> dict:
    p = {"kind": model["kind"], "b": model["b"], "base": model["base"], "mask": model["mask"],
         "msg": model["args"], "imgdt": imgdt}
    if extra:
        p.update(extra)
    arguments = dict(model_user_args(model["args"]))
    arguments["_p"] = p
    func = {"partial": PROBE + "_partial", "object": PROBE + "_object"}.get((extra or {}).get("callable"), PROBE)
    return {"func": func, "name": model["name"], "enabled": bool(model["enabled"]),
            "arguments": arguments}


def flux_file(value: float, shape=(2, 3)) -> str:
    """An .npy file holding a uniform frame (input of load_charge / load_image)."""
    d = os.path.join(os.environ.get("VERIF_WORK", VERIF + "/.work"), "flux_files")
    os.makedirs(d, exist_ok=True)
    f = os.path.join(d, f"uniform_{shape[0]}x{shape[1]}_{value!r}.npy")
    if not os.path.exists(f):
        tmp = f + f".{os.getpid()}.tmp.npy"
        np.save(tmp, np.full(shape, float(value)))
        os.replace(tmp, f)
    return f


def stored_detector_file(stored: dict, shape=(2, 3), kind="ccd") -> str:
    """An .asdf file holding a detector whose buckets are at the levels of `stored`."""
    import hashlib
    d = os.path.join(os.environ.get("VERIF_WORK", VERIF + "/.work"), "flux_files")
    os.makedirs(d, exist_ok=True)
    # (the tag changes whenever load_prior / set_data_token change what they write)
    h = hashlib.sha1(json.dumps([stored, shape, kind, "layout-2"], sort_keys=True).encode()).hexdigest()[:12]
    f = os.path.join(d, f"detector_{h}.asdf")
    if not os.path.exists(f):
        det = make_detector(kind, *shape)
        load_prior(det, stored)
        tmp = os.path.join(d, f"detector_{h}.{os.getpid()}.asdf")
        det.save(tmp)
        os.replace(tmp, f)
    return f


def real_model_dict(model: dict, variant: int, shape=(2, 3), cfg: dict | None = None) -> dict:
    """The library model that stands for an abstract flux / conv / collect / loaddet model.
    `base` is the rate per tick: level per second = base * TICK."""
    kind, b, base = model["kind"], model["b"], model["base"]
    name, en = model["name"], bool(model["enabled"])
    if kind == "loaddet":
        return {"func": "pyxel.models.load_detector", "name": name, "enabled": en,
                "arguments": {"filename": stored_detector_file(cfg["stored"], shape)}}
    if kind == "flux" and b == "photon":
        if variant % 3 == 0:
            return {"func": "pyxel.models.photon_collection.illumination", "name": name, "enabled": en,
                    "arguments": {"level": float(base * TICK), "option": "uniform"}}
        if variant % 3 == 1:   # same flux expressed with another time scale
            return {"func": "pyxel.models.photon_collection.illumination", "name": name, "enabled": en,
                    "arguments": {"level": float(base), "time_scale": 1.0 / TICK}}
        return {"func": "pyxel.models.photon_collection.load_image", "name": name, "enabled": en,
                "arguments": {"image_file": flux_file(float(base * TICK), shape), "convert_to_photons": False}}
    if kind == "flux" and b == "charge":
        if variant % 2 == 0:
            return {"func": "pyxel.models.charge_generation.load_charge", "name": name, "enabled": en,
                    "arguments": {"filename": flux_file(float(base * TICK), shape)}}
        return {"func": "pyxel.models.charge_generation.load_charge", "name": name, "enabled": en,
                "arguments": {"filename": flux_file(float(base), shape), "time_scale": 1.0 / TICK}}
    if kind == "conv":
        return {"func": "pyxel.models.charge_generation.simple_conversion", "name": name, "enabled": en,
                "arguments": {"quantum_efficiency": base / 2.0, "binomial_sampling": False}}
    if kind == "collect":
        return {"func": "pyxel.models.charge_collection.simple_collection", "name": name, "enabled": en}
    raise ValueError(kind)


REAL_KINDS = ("flux", "conv", "collect", "loaddet")


def build_pipeline(cfg: dict, extra: dict | None = None, real: int | None = None, shape=(2, 3)):
    """`real` = None: every model is a probe; otherwise flux/conv/collect models are the
    library's own models (variant number `real`)."""
    from pyxel.pipelines import DetectionPipeline, ModelFunction
    kw = {}
    for k, gname in enumerate(GROUPS):
        models = cfg["pipe"][k]
        if models:
            kw[gname] = [ModelFunction(**(real_model_dict(m, real, shape, cfg)
                                          if real is not None and m["kind"] in REAL_KINDS
                                          else model_dict(m, cfg.get("imgdt", "uint16"), extra)))
                         for m in models]
    return DetectionPipeline(**kw)


NANTICK = -999983   # a readout time that is not a number (an invalid schedule for the specification: it is not increasing)


def times_seconds(cfg: dict) -> list:
    return [float("nan") if t == NANTICK else t / TICK for t in cfg["times"]]


def build_readout(cfg: dict, how: str = "list"):
    from pyxel.exposure import Readout
    ts = times_seconds(cfg)
    st = cfg["start"] / TICK
    if how == "list":
        return Readout(times=ts, start_time=st, non_destructive=cfg["nd"])
    if how == "setter":
        # construct a valid placeholder far away, then assign through the setters
        ro = Readout(times=[1e9], start_time=-1e9, non_destructive=not cfg["nd"])
        ro.non_destructive = cfg["nd"]
        ro.times = ts if len(ts) != 1 else ts[0]
        ro.start_time = st
        return ro
    if how == "string":
        return Readout(times="numpy.array(%r)" % (ts,), start_time=st, non_destructive=cfg["nd"])
    if how == "scalar" and len(ts) == 1:
        return Readout(times=ts[0], start_time=st, non_destructive=cfg["nd"])
    if how in ("npyfile", "txtfile") and ts:
        import tempfile
        d = tempfile.mkdtemp(prefix="sched_", dir=os.environ.get("VERIF_WORK", VERIF + "/.work"))
        if how == "npyfile":
            f = os.path.join(d, "times.npy")
            np.save(f, np.array(ts, dtype=float))
        else:
            f = os.path.join(d, "times.txt")
            with open(f, "w") as fh:
                fh.write("\n".join(repr(float(t)) for t in ts) + "\n")
        try:
            return Readout(times_from_file=f, start_time=st, non_destructive=cfg["nd"])
        finally:
            import shutil
            shutil.rmtree(d, ignore_errors=True)
    if how in ("scalar", "npyfile", "txtfile"):
        return Readout(times=ts, start_time=st, non_destructive=cfg["nd"])
    raise ValueError(how)


def yaml_document(cfg: dict, order: str = "canonical", seed: int = 0, mode: str = "exposure",
                  extra: dict | None = None, rows: int = 2, cols: int = 3, kind: str = "ccd") -> str:
    import random

    import yaml
    names = list(GROUPS)
    if order == "reversed":
        names.reverse()
    elif order == "shuffled":
        random.Random(seed).shuffle(names)
    pipe = {}
    for gname in names:
        models = cfg["pipe"][GROUPS.index(gname)]
        if models:
            pipe[gname] = [model_dict(m, cfg.get("imgdt", "uint16"), extra) for m in models]
        elif order == "shuffled" and random.Random(seed + len(gname)).random() < 0.5:
            pipe[gname] = None          # an explicitly empty group key
    doc = {
        mode: {"readout": {"times": times_seconds(cfg), "start_time": cfg["start"] / TICK,
                           "non_destructive": bool(cfg["nd"])}},
        f"{kind}_detector": {
            "geometry": {"row": rows, "col": cols, "pixel_vert_size": 10.0, "pixel_horz_size": 16.0,
                         "total_thickness": 40.0},
            "environment": {"temperature": 200.0},
            "characteristics": ({"roic_gain": 1.0, "avalanche_gain": 2.0, "pixel_reset_voltage": 5.0}
                                if kind == "apd" else {}),
        },
        "pipeline": pipe,
    }
    return yaml.safe_dump(doc, sort_keys=False)
