"""Observation mode: realise a specification configuration (`ocfg` of PyxelObservation)
with real pyxel objects, run it, and record the trace the specification validates."""

from __future__ import annotations

import copy
import json
import os
import re
import tempfile
import threading
import time

import numpy as np

from harness import px
from harness.probes import pm

UNKNOWN = 7   # token for a value the probe cannot decode

# Catalogue of concrete sweep targets.  token -> concrete value (0 = configured default)
PHOTON_TARGETS = [
    {"key": "pipeline.photon_collection.stamp.arguments.a", "src": "arg:a", "arity": 1,
     "vals": {0: 10, 1: 11, 2: 0, 3: 13}, "forms": ["list"]},          # one of the swept values is 0
    {"key": "detector.environment.temperature", "src": "det:environment.temperature", "arity": 1,
     "vals": {0: 200.0, 1: 101.0, 2: 102.0, 3: 103.0}, "forms": ["list", "array"]},
    {"key": "pipeline.photon_collection.stamp.arguments.v", "src": "arg:v", "arity": 2,
     "vals": {0: [9, 9], 1: [1, 2], 2: [3, 4], 3: [5, 6]}, "forms": ["list"]},
    {"key": "detector.characteristics.quantum_efficiency", "src": "det:characteristics.quantum_efficiency",
     "arity": 1, "vals": {0: 0.9, 1: 0.25, 2: 0.5, 3: 0.75}, "forms": ["list", "array"]},
    {"key": "pipeline.photon_collection.stamp.arguments.s", "src": "arg:s", "arity": 1,
     "vals": {0: "zz", 1: "aa", 2: "bb", 3: "cc"}, "forms": ["list"], "text": True},
    {"key": "detector.geometry.pixel_vert_size", "src": "det:geometry.pixel_vert_size", "arity": 1,
     "vals": {0: 10.0, 1: 21.0, 2: 22.0, 3: 23.0}, "forms": ["list"]},
    # an entry INSIDE a dictionary-valued argument
    {"key": "pipeline.photon_collection.stamp.arguments.opt.level", "src": "arg:opt.level", "arity": 1,
     "vals": {0: 40, 1: 41, 2: 42, 3: 43}, "forms": ["list"], "nested": True},
]
SIGNAL_TARGETS = [
    {"key": "pipeline.charge_measurement.stamp2.arguments.a", "src": "arg:a", "arity": 1,
     "vals": {0: 7.0, 1: 0.5, 2: 1.5, 3: 2.5}, "forms": ["list", "array"]},   # collides with stamp.a
    {"key": "pipeline.charge_measurement.stamp2.arguments.w", "src": "arg:w", "arity": 3,
     "vals": {0: [8, 8, 8], 1: [1, 1, 2], 2: [2, 1, 1], 3: [3, 3, 3]}, "forms": ["list"]},
    {"key": "pipeline.charge_measurement.stamp2.arguments.g", "src": "arg:g", "arity": 1,
     "vals": {0: 70, 1: 71, 2: 72, 3: 73}, "forms": ["list", "arange"]},
    {"key": "pipeline.charge_measurement.stamp2.arguments.h", "src": "arg:h", "arity": 1,
     "vals": {0: -1.5, 1: 0.0, 2: 1e3, 3: 1e-3}, "forms": ["list", "array"]},   # one of the swept values is 0.0
    {"key": "pipeline.charge_measurement.stamp2.arguments.k", "src": "arg:k", "arity": 1,
     "vals": {0: "k0", 1: "k1", 2: "k2", 3: "k3"}, "forms": ["list"], "text": True},
    {"key": "pipeline.charge_measurement.stamp2.arguments.cfg.gain", "src": "arg:cfg.gain", "arity": 1,
     "vals": {0: 60.0, 1: 61.0, 2: 62.0, 3: 63.0}, "forms": ["list", "array"], "nested": True},
]


def assign_targets(ocfg: dict, variant: int = 0, force: list | None = None) -> list:
    """Concrete target for each declared parameter (by sink), rotated by `variant`;
    `force` names the catalogue keys explicitly (directed cases, e.g. colliding short names)."""
    if force:
        cat = {t["key"]: t for t in PHOTON_TARGETS + SIGNAL_TARGETS}
        return [cat[k] for k in force]
    out = []
    ip = variant % len(PHOTON_TARGETS)
    isg = variant % len(SIGNAL_TARGETS)
    custom = ocfg["mode"] == "custom"

    def usable(t):
        # Named deviation DEV_TwoVectorLengths: without dask, two vector-valued parameters of
        # different length make the merge of the per-run trees fail (both coordinates use the
        # anonymous dimension 'dim_0'): an explicit error, not a wrong result - not generated.
        if t in out or (custom and t.get("text")):
            return False
        # Named deviation DEV_NestedKeyGet: sequential mode reads the configured value of every parameter with
        # Processor.get, which cannot read an entry of a dictionary-valued argument (AttributeError: an explicit
        # refusal, not a wrong result) - such keys are swept in product and custom mode only.
        if t.get("nested") and ocfg["mode"] == "sequential":
            return False
        return not (t["arity"] > 1 and any(o["arity"] > 1 for o in out))

    for p in ocfg["params"]:
        pool, start = (PHOTON_TARGETS, ip) if p["sink"] == "photon" else (SIGNAL_TARGETS, isg)
        t = None
        for k in range(len(pool)):
            cand = pool[(start + k) % len(pool)]
            if usable(cand):
                t = cand
                break
        if p["sink"] == "photon":
            ip = start + k + 1
        else:
            isg = start + k + 1
        out.append(t)
    return out


def _norm(v):
    """Canonical comparable form of a concrete value."""
    if isinstance(v, str):
        return v
    a = np.asarray(v)
    if a.dtype.kind in "US":
        return str(a) if a.ndim == 0 else tuple(map(str, a.tolist()))
    if a.dtype == object:
        try:
            a = np.asarray(a.tolist(), dtype=float)
        except Exception:
            return repr(v)
    if a.ndim == 0:
        return float(a)
    return tuple(float(x) for x in a.ravel())


def token_of(target: dict, value) -> int:
    try:
        nv = _norm(value)
    except Exception:
        return UNKNOWN
    for tok, cv in target["vals"].items():
        if _norm(cv) == nv:
            return int(tok)
    return UNKNOWN


def values_form(target: dict, toks: list, form: str):
    vals = [target["vals"][t] for t in toks]
    if form == "arange" and target["arity"] == 1 and len(vals) >= 2 and \
            all(vals[k + 1] - vals[k] == 1 for k in range(len(vals) - 1)):
        return f"numpy.arange({vals[0]}, {vals[-1] + 1})"
    if form in ("array", "arange") and target["arity"] == 1 and not target.get("text"):
        return f"numpy.array({vals!r})"
    return copy.deepcopy(vals)


def coord_names(ocfg: dict, targets: list) -> list:
    """Documented naming of result coordinates: last key component, or model.argument when
    two enabled parameters share it."""
    en = [j for j, p in enumerate(ocfg["params"]) if p["enabled"]]
    shorts = {j: targets[j]["key"].split(".")[-1] for j in en}
    names = {}
    for j in en:
        if list(shorts.values()).count(shorts[j]) > 1:
            parts = targets[j]["key"].split(".")
            names[j] = f"{parts[2]}.{parts[4]}"
        else:
            names[j] = shorts[j]
    return [names[j] for j in en]


# ---------------------------------------------------------------------------
# probes (referenced by dotted name from the pipeline)

JOB = [0]


def _arg(user: dict, dotted: str):
    """Value of a (possibly nested) keyword argument: 'a' or 'opt.level'."""
    cur = user
    for part in dotted.split("."):
        if not isinstance(cur, dict) and not hasattr(cur, "__getitem__"):
            return None
        try:
            cur = cur[part]
        except Exception:
            return None
    return cur


def _get(detector, dotted):
    obj = detector
    for part in dotted.split("."):
        obj = getattr(obj, part)
    return obj


def stamp(detector, _p=None, acc=None, **user):
    """Photon-sink probe: codes the values it can see into the photon bucket."""
    p = _p or {}
    shape = (detector.geometry.row, detector.geometry.col)
    level = 0
    for j, tgt in p["decode"]:
        src = tgt["src"]
        val = _arg(user, src[4:]) if src.startswith("arg:") else _get(detector, src[4:])
        level += token_of(tgt, val) * 8 ** j
    cnt = detector._memory.get("cnt", -1)
    nacc = len(acc) if acc is not None else -1
    detector._memory["cnt"] = cnt + 1            # state kept on the detector
    if acc is not None:
        acc.append(cnt)                            # a model mutating its own argument
    detector._memory["seen"] = cnt if nacc == 3 else -100 - nacc
    if p.get("delay"):
        time.sleep(max(0.0, p["delay"] * (40 - level % 37) / 1000.0))
    for v in user.values():          # a model that reorders its own list-valued arguments in place
        if isinstance(v, list) and len(v) > 1:
            v.reverse()
    detector.photon.array = px.level_array(level, shape)
    if p.get("img"):
        detector.image.array = px.level_array(level % 500 + 1, shape, "uint16")


def stamp2(detector, _p=None, **user):
    """Signal-sink probe, last in the pipeline: emits the `run` event."""
    p = _p or {}
    shape = (detector.geometry.row, detector.geometry.col)
    np_ = p["np"]
    eff = [0] * np_
    level = 0
    for j, tgt in p["decode"]:
        tok = token_of(tgt, _arg(user, tgt["src"][4:]))
        eff[j] = tok
        level += tok * 8 ** j
    ph = px.level_of(detector.photon._array)
    for j in p["photon_js"]:
        eff[j] = (ph // 8 ** j) % 8 if ph >= 0 else UNKNOWN
    detector.signal.array = px.level_array(level, shape)
    for v in user.values():
        if isinstance(v, list) and len(v) > 1:
            v.reverse()
    ev = {"e": "run", "eff": eff, "seenMem": detector._memory.get("seen", -1),
          "thread": threading.get_ident(), "step": int(detector.pipeline_count), "job": p.get("job")}
    pm.SINK.emit(ev)
    if p.get("fault") and list(p["fault"]) == eff:
        raise pm.EXC[p.get("exc", "ValueError")](p.get("msg", "boom"))


# ---------------------------------------------------------------------------

def build(ocfg: dict, variant: int = 0, delay: float = 0.0, exc: str = "ValueError",
          outputs=None, seed=None, extra_models: bool = True, force: list | None = None, img: bool = False):
    from pyxel.exposure import Readout
    from pyxel.observation import Observation, ParameterValues
    from pyxel.pipelines import DetectionPipeline, ModelFunction

    targets = assign_targets(ocfg, variant, force)
    np_ = len(ocfg["params"])
    dec_ph = [[j, targets[j]] for j, p in enumerate(ocfg["params"]) if p["sink"] == "photon"]
    dec_sg = [[j, targets[j]] for j, p in enumerate(ocfg["params"]) if p["sink"] == "signal"]
    msg = "obs-fault " + json.dumps(ocfg.get("fault", []))
    a1 = {"a": 10, "v": [9, 9], "s": "zz", "acc": [1, 2, 3], "opt": {"level": 40, "other": [1, 2]},
          "_p": {"decode": dec_ph, "delay": delay, "img": bool(img), "job": JOB[0]}}
    a2 = {"a": 7.0, "w": [8, 8, 8], "g": 70, "h": -1.5, "k": "k0", "cfg": {"gain": 60.0, "name": "x"},
          "_p": {"decode": dec_sg, "np": np_, "photon_js": [j for j, _ in dec_ph],
                 "fault": list(ocfg.get("fault") or []), "exc": exc, "msg": msg, "job": JOB[0]}}
    groups = {"photon_collection": [ModelFunction(func="harness.obs.stamp", name="stamp", arguments=a1)],
              "charge_measurement": [ModelFunction(func="harness.obs.stamp2", name="stamp2", arguments=a2)]}
    if extra_models:   # a disabled model that must never run and an observer in another group
        groups["charge_generation"] = [ModelFunction(func="harness.obs.never", name="never", enabled=False,
                                                     arguments={"a": 1})]
    pipe = DetectionPipeline(**groups)
    det = px.make_detector("ccd", 2, 3)
    det._memory["cnt"] = 5
    params = []
    colvals = []
    for j, p in enumerate(ocfg["params"]):
        tgt = targets[j]
        if ocfg["mode"] == "custom":
            values = "_" if tgt["arity"] == 1 else ["_"] * tgt["arity"]
        else:
            form = tgt["forms"][(variant + j) % len(tgt["forms"])]
            values = values_form(tgt, p["vals"], form)
        params.append(ParameterValues(key=tgt["key"], values=values, enabled=bool(p["enabled"])))
    kw = {}
    tmpdir = None
    if ocfg["mode"] == "custom":
        tmpdir = tempfile.mkdtemp(prefix="custom_", dir=os.environ.get("VERIF_WORK", px.VERIF + "/.work"))
        en = [j for j, p in enumerate(ocfg["params"]) if p["enabled"]]
        rows = []
        for row in ocfg["table"]:
            cols = []
            for k, j in enumerate(en):
                v = targets[j]["vals"][row[k]]
                cols += list(v) if isinstance(v, list) else [v]
            rows.append(cols)
        f = os.path.join(tmpdir, "table.txt")
        with open(f, "w") as fh:
            for r in rows:
                fh.write("\t".join(repr(float(x)) for x in r) + "\n")
        kw["from_file"] = f
        kw["column_range"] = (0, len(rows[0]))
    obs = Observation(parameters=params, mode=ocfg["mode"], with_dask=bool(ocfg["dask"]),
                      readout=Readout(times=[1.0]), outputs=outputs, pipeline_seed=seed, **kw)
    return obs, det, pipe, targets, tmpdir, msg


def never(detector, a=0):
    pm.SINK.emit({"e": "run", "eff": [UNKNOWN], "seenMem": -999, "thread": 0, "step": 0, "never": True})


def snapshot_user(det, pipe, obs) -> dict:
    """Structural snapshot of the caller's objects (never uses pyxel's ==)."""
    def plain(o):
        out = {}
        for k, v in vars(o).items():
            if isinstance(v, (int, float, str, bool, type(None), tuple, list)):
                out[k] = repr(v)
            elif isinstance(v, np.ndarray):
                out[k] = repr(v.tolist())
        return out
    models = []
    for m in pipe:
        pass
    for gname in px.GROUPS:
        grp = getattr(pipe, gname)
        if grp:
            for m in grp.models:
                models.append([gname, m.name, bool(m.enabled),
                               json.dumps({k: v for k, v in m.arguments.items()}, sort_keys=True, default=repr)])
    try:
        buckets = px.project_buckets(det)
    except Exception as exc:      # a container that was never initialised
        buckets = repr(exc)[:60]
    return {"geometry": plain(det.geometry), "environment": plain(det.environment),
            "characteristics": plain(det.characteristics), "memory": json.dumps(det._memory, sort_keys=True, default=repr),
            "buckets": buckets, "models": models,
            "readout": [repr(obs.readout.times.tolist()), repr(obs.readout.start_time), repr(obs.readout.non_destructive)]}


_NOTE_PARAM = re.compile(r"^\s*-\s*'([^']+)':\s*(.*)$")


def project_entries(dt, ocfg, targets) -> list:
    import ast
    node = dt["/bucket"] if "bucket" in dt.children else dt
    ds = node.to_dataset(inherit=True) if hasattr(node, "to_dataset") else node
    names = coord_names(ocfg, targets)
    en = [j for j, p in enumerate(ocfg["params"]) if p["enabled"]]
    var = ds["photon"]
    pdims = [d for d in var.dims if d not in ("time", "y", "x")]
    entries = []
    for idx in np.ndindex(*[ds.sizes[d] for d in pdims]):
        sel = dict(zip(pdims, idx))
        sub = ds.isel(sel)
        label = []
        for name, j in zip(names, en):
            if name in sub.coords:
                val = sub.coords[name].values
                if isinstance(val, np.ndarray) and val.dtype == object and val.ndim == 0:
                    val = val.item()
                label.append(token_of(targets[j], val))
            else:
                label.append(UNKNOWN)
        ident = int(sub.coords["id"].values) if "id" in pdims else -1
        ph = px.level_of(np.asarray(sub["photon"].isel(time=0).values))
        sg = px.level_of(np.asarray(sub["signal"].isel(time=0).values))
        entries.append({"e": "entry", "label": label, "id": ident, "photon": ph, "signal": sg})
    return entries


def record_observation(ocfg: dict, variant: int = 0, scheduler: str | None = None, workers: int | None = None,
                       delay: float = 0.0, exc: str = "ValueError", per_entry: bool = False,
                       force: list | None = None, repeat: int = 1, reconf: list | None = None) -> dict:
    """Run the observation; return {ocfg, observed, events, meta}."""
    import dask
    import pyxel
    JOB[0] += 1        # runs that threads of an earlier (failed) observation still execute are not ours
    pm.SINK.reset()
    meta = {"variant": variant, "scheduler": scheduler, "workers": workers, "exc": exc, "mode": ocfg["mode"],
            "dask": bool(ocfg["dask"]), "force": force, "delay": delay, "repeat": repeat, "reconf": reconf}
    observed = scheduler != "processes"
    tmpdir = None
    try:
        obs, det, pipe, targets, tmpdir, msg = build(ocfg, variant, delay, exc, force=force)
    except Exception as e:
        import traceback
        return {"ocfg": ocfg, "observed": observed, "meta": meta,
                "events": [{"e": "harness-error", "why": traceback.format_exc()[-600:]}]}
    events = []
    for rep in range(repeat):
        if rep:
            # the same Observation, detector and pipeline objects are run once more (a session)
            events.append({"e": "rerun"})
            # the caller edits, on his own objects, the values some parameters are configured with
            for j, tok in (reconf or []):
                try:
                    from pyxel.pipelines import Processor
                    Processor(detector=det, pipeline=pipe).set(key=targets[j]["key"], value=copy.deepcopy(targets[j]["vals"][tok]))
                except Exception:
                    import traceback
                    events.append({"e": "harness-error", "why": traceback.format_exc()[-600:]})
                events.append({"e": "reconf", "j": j + 1, "tok": tok})
            JOB[0] += 1
            for model, key in ((pipe.photon_collection.models[0], "stamp"), (pipe.charge_measurement.models[0], "stamp2")):
                model.arguments["_p"]["job"] = JOB[0]
            pm.SINK.reset()
        before = snapshot_user(det, pipe, obs)
        dkw = {}
        if scheduler:
            dkw["scheduler"] = scheduler
            if workers:
                dkw["num_workers"] = workers
        failed = None
        stage = "run_mode"
        dt = None
        try:
            with dask.config.set(**dkw):
                dt = pyxel.run_mode(obs, det, pipe, with_inherited_coords=True)
                stage = "compute"
                if ocfg["dask"]:
                    dt = dt.compute()
        except Exception as e:
            failed = e
        finally:
            if tmpdir and rep == repeat - 1:
                import shutil
                shutil.rmtree(tmpdir, ignore_errors=True)
        runs = [ev for ev in pm.SINK.events if ev["e"] == "run" and ev.get("job", JOB[0]) == JOB[0]]
        for ev in runs:
            events.append({k: v for k, v in ev.items() if k in ("e", "eff", "seenMem")} |
                          ({"never": True} if ev.get("never") else {}))
        if not observed:
            events = []
        after = snapshot_user(det, pipe, obs)
        if failed is not None:
            pe = px.project_exception(failed)
            ev = {"e": "failed", "exc": pe["exc"], "msg": pe["msg"], "msgok": bool(pe["msg"] == msg and pe["exc"] == exc),
                  "stage": stage, "g": pe["g"], "name": pe["name"]}
            # parameter values named in the notes (sequential execution)
            noted = {}
            for note in pe["notes"]:
                for line in note.splitlines():
                    m = _NOTE_PARAM.match(line)
                    if m:
                        noted[m.group(1)] = m.group(2)
            if noted and not ocfg["dask"]:
                import ast
                en = [j for j, p in enumerate(ocfg["params"]) if p["enabled"]]
                eff = []
                for j in en:
                    txt = noted.get(targets[j]["key"])
                    try:
                        val = ast.literal_eval(txt) if txt is not None else None
                    except Exception:
                        val = txt
                    eff.append(token_of(targets[j], val) if txt is not None else UNKNOWN)
                ev["eff"] = eff
            events.append({"e": "user_after", "mem": det._memory.get("cnt", -1), "unchanged": before == after})
            events.append(ev)
        else:
            try:
                events += project_entries(dt, ocfg, targets)
            except Exception:
                import traceback
                events.append({"e": "harness-error", "why": traceback.format_exc()[-600:]})
            events.append({"e": "user_after", "mem": det._memory.get("cnt", -1), "unchanged": before == after})
            events.append({"e": "done"})
    if before != after:
        meta["user_diff"] = [k for k in before if before[k] != after[k]]
    return {"ocfg": ocfg, "observed": observed, "events": events, "meta": meta}


# ---------------------------------------------------------------------------
# seeded stochastic pipelines under the schedulers (C07 / C04: PyxelSeedThreads on the dask path)

def noisy(detector, level=0.0, delay=0.0):
    import numpy as np
    shape = (detector.geometry.row, detector.geometry.col)
    time.sleep(delay * (5 - level) / 1000.0)        # later parameters finish first
    first = np.random.random_sample(shape)
    time.sleep(delay / 1000.0)
    detector.photon.array = level + first


def noisy2(detector, delay=0.0):
    import numpy as np
    shape = (detector.geometry.row, detector.geometry.col)
    time.sleep(delay / 1000.0)
    detector.signal.array = np.random.normal(size=shape)


def seeded_job(job: dict) -> dict:
    """Observation over `levels` with pipeline_seed; returns, per level, whether the noise of the run is
    exactly the first draws of the seed's own stream (reference generator), and the generator digests."""
    import dask
    import numpy as np
    import pyxel
    from harness import seed as S
    from pyxel.exposure import Readout
    from pyxel.observation import Observation, ParameterValues
    from pyxel.pipelines import DetectionPipeline, ModelFunction
    levels = job.get("levels", [1.0, 2.0, 3.0, 4.0])
    pseed = job.get("pipeline_seed", 5)
    pipe = DetectionPipeline(
        photon_collection=[ModelFunction(func="harness.obs.noisy", name="noisy",
                                         arguments={"level": 0.0, "delay": job.get("delay", 20.0)})],
        charge_measurement=[ModelFunction(func="harness.obs.noisy2", name="noisy2",
                                          arguments={"delay": job.get("delay", 20.0)})])
    det = px.make_detector("ccd", 2, 3)
    obs = Observation(parameters=[ParameterValues(key="pipeline.photon_collection.noisy.arguments.level", values=levels)],
                      mode="product", with_dask=bool(job.get("dask", True)), readout=Readout(times=[1.0]),
                      pipeline_seed=pseed)
    dkw = {}
    if job.get("scheduler"):
        dkw["scheduler"] = job["scheduler"]
        if job.get("workers"):
            dkw["num_workers"] = job["workers"]
    S._ORIG["seed"](777)
    before = S.state_digest()
    out = {"job": job, "runs": [], "error": None}
    try:
        with dask.config.set(**dkw):
            dt = pyxel.run_mode(obs, det, pipe, with_inherited_coords=True)
            if job.get("dask", True):
                dt = dt.compute()
    except Exception as exc:  # noqa: BLE001
        out["error"] = repr(exc)[:300]
        return out
    out["restored"] = S.state_digest() == before
    rs = np.random.RandomState(pseed)
    ref1 = rs.random_sample((2, 3))
    ref2 = rs.normal(size=(2, 3))
    ph = dt["/bucket/photon"]
    sg = dt["/bucket/signal"]
    dim = [d for d in ph.dims if d not in ("y", "x", "time")][0]
    for k, lv in enumerate(levels):
        a = np.asarray(ph.isel({dim: k, "time": 0})) - float(ph[dim][k])
        b = np.asarray(sg.isel({dim: k, "time": 0}))
        out["runs"].append({"level": float(ph[dim][k]), "own_stream_photon": bool(np.allclose(a, ref1, rtol=0, atol=1e-12)),
                            "own_stream_signal": bool(np.array_equal(b, ref2))})
    return out


# ---------------------------------------------------------------------------
# flux pipelines swept through the observation modes (C17 / C05): every run is an exposure of its own

def flux_sweep_job(job: dict) -> dict:
    """Observation over [illumination level, readout times] (in the given declaration order) of a pipeline of
    REAL flux models; returns one PipelineTrace trace per run: the run's configuration (rate per tick, its own
    single readout time) and the projected buckets the result holds under the run's labels."""
    import copy

    import dask
    import numpy as np
    import pyxel
    from pyxel.exposure import Readout
    from pyxel.observation import Observation, ParameterValues
    bases, tlist, order = job["bases"], job["times"], job.get("order", "level-first")
    empty = {b: px.EMPTY for b in px.BUCKETS}
    cfg0 = {"pipe": [[] for _ in range(10)], "times": [tlist[0]], "start": 0, "nd": False, "prior": empty,
            "imgdt": "uint16", "stored": empty}
    cfg0["pipe"][1] = [{"name": "ill", "enabled": True, "args": "a", "kind": "flux", "b": "photon", "base": bases[0], "mask": -1}]
    cfg0["pipe"][3] = [{"name": "conv", "enabled": True, "args": "b", "kind": "conv", "b": "charge", "base": 2, "mask": -1}]
    cfg0["pipe"][4] = [{"name": "coll", "enabled": True, "args": "d", "kind": "collect", "b": "pixel", "base": 0, "mask": -1}]
    pipe = px.build_pipeline(cfg0, None, real=0, shape=(2, 3))
    det = px.make_detector("ccd", 2, 3)
    p_level = ParameterValues(key="pipeline.photon_collection.ill.arguments.level", values=[float(b * px.TICK) for b in bases])
    p_times = ParameterValues(key="observation.readout.times", values=[[t / px.TICK] for t in tlist])
    params = [p_level, p_times] if order == "level-first" else [p_times, p_level]
    obs_ = Observation(parameters=params, mode="product", with_dask=bool(job.get("dask")),
                       readout=Readout(times=[job.get("base_time", 1.0)]))
    dkw = {}
    if job.get("scheduler"):
        dkw["scheduler"] = job["scheduler"]
        if job.get("workers"):
            dkw["num_workers"] = job["workers"]
    traces, err = [], ""
    user_before = snapshot_user(det, pipe, obs_)
    user_after = None
    try:
        with dask.config.set(**dkw):
            dt = pyxel.run_mode(obs_, det, pipe, with_inherited_coords=True)
            if job.get("dask"):
                dt = dt.compute()
        # the caller's detector, pipeline and readout after the sweep (C06: untouched by the runs)
        user_after = snapshot_user(det, pipe, obs_)
        ds = dt["/bucket"].to_dataset()
        for i, b in enumerate(bases):
            for j, t in enumerate(tlist):
                # (the coordinate of a swept parameter is sorted: select by value, not by declaration position)
                lv = [float(v) for v in ds["level"].values.tolist()]
                sel = ds.isel(level=lv.index(float(b * px.TICK)))
                if "readout_time_id" in sel.dims:
                    rt = [float(np.ravel(np.asarray(v, dtype=object))[0]) if not isinstance(v, (int, float)) else float(v)
                          for v in sel["readout_time"].values.tolist()] if "readout_time" in sel.coords else None
                    sel = sel.isel(readout_time_id=(rt.index(t / px.TICK) if rt else j))
                # the time coordinate holds floats, or (dask path) the swept one-element tuples
                tvals = [float(np.ravel(np.asarray(v, dtype=object))[0]) if not isinstance(v, (int, float)) else float(v)
                         for v in sel["time"].values.tolist()]
                sel = sel.isel(time=tvals.index(t / px.TICK))
                res = {}
                for name in px.ARRAY_BUCKETS:
                    if name in sel.data_vars:
                        arr = np.squeeze(np.asarray(sel[name].values))
                        lvl = px.EMPTY if (arr.dtype.kind == "f" and np.isnan(arr).all()) else px.level_of(arr.astype(float))
                    else:
                        lvl = px.EMPTY
                    res[name] = [{"label": t, "level": int(lvl)}]
                res.update({"scene": px.EMPTY, "data": px.EMPTY, "imgdt": "uint16"})
                cfg = copy.deepcopy(cfg0)
                cfg["pipe"][1][0]["base"] = b
                cfg["times"] = [t]
                traces.append({"cfg": cfg, "events": [{"e": "done", "result": res}],
                               "meta": {"real": 0, "sweep": job, "level_base": b, "time_ticks": t}})
    except Exception:
        import traceback
        err = traceback.format_exc()[-600:]
    return {"traces": traces, "error": err, "job": job, "user_before": user_before, "user_after": user_after}
