"""C08 / C12: assignments to real settings through every entry point, projected onto PyxelSettings."""

from __future__ import annotations

import copy
import sys
import warnings
from fractions import Fraction

import numpy as np

from harness import px
from harness.probes import pm

GEOM = ["row", "col", "total_thickness", "pixel_vert_size", "pixel_horz_size", "pixel_scale"]
ENV = ["temperature", "wavelength"]
CHAR = ["quantum_efficiency", "charge_to_volt_conversion", "pre_amplification", "full_well_capacity",
        "adc_bit_resolution", "adc_voltage_range"]
APD_CHAR = ["quantum_efficiency", "full_well_capacity", "adc_bit_resolution", "adc_voltage_range"]
INTERNAL = {"numbytes", "log"}

BASE = {"geometry": {"row": 8, "col": 8, "total_thickness": 1.0, "pixel_vert_size": 1.0, "pixel_horz_size": 1.0,
                     "pixel_scale": 1.0},
        "environment": {"temperature": 1.0},
        "characteristics": {"quantum_efficiency": 1.0, "charge_to_volt_conversion": 1.0, "pre_amplification": 1.0,
                            "full_well_capacity": 1.0, "adc_bit_resolution": 8, "adc_voltage_range": (0.0, 8.0)}}
APD_EXTRA = {"roic_gain": 1.0, "avalanche_gain": 2.0, "pixel_reset_voltage": 5.0}


def fields(kind):
    return {"geometry": GEOM, "environment": ENV, "characteristics": APD_CHAR if kind == "apd" else CHAR}


def canon(v):
    if isinstance(v, (bool, np.bool_)):
        return {"k": "txt", "c": f"bool:{bool(v)}"}
    if isinstance(v, (int, float, np.integer, np.floating)):
        fv = float(v)
        if np.isfinite(fv):
            fr = Fraction(repr(fv)) if not isinstance(v, (int, np.integer)) else Fraction(int(v))
            if fr.denominator <= 10 ** 6 and abs(fr.numerator) < 2 ** 31:
                return {"k": "num", "n": fr.numerator, "d": fr.denominator}
        return {"k": "txt", "c": f"float:{fv!r}"}
    if v is None:
        return {"k": "txt", "c": "None"}
    if isinstance(v, np.ndarray):
        v = v.tolist()
    if isinstance(v, (list, tuple)):
        v = _normseq(v)
    if isinstance(v, str):
        return {"k": "txt", "c": f"str:{v}"}
    return {"k": "txt", "c": f"{type(v).__name__}:{v!r}"}


def _normseq(v):
    """Lists and tuples of numbers compare by value: tuple == list, 2.0 == 2."""
    out = []
    for x in v:
        if isinstance(x, (list, tuple)):
            out.append(_normseq(x))
        elif isinstance(x, (bool, np.bool_)):
            out.append(bool(x))
        elif isinstance(x, (int, float, np.integer, np.floating)) and float(x).is_integer():
            out.append(int(x))
        elif isinstance(x, (float, np.floating)):
            out.append(float(x))
        else:
            out.append(x)
    return out


def decanon(val):
    if val["k"] == "num":
        return val["n"] if val["d"] == 1 else val["n"] / val["d"]
    c = val["c"]
    if c == "None":
        return None
    t, _, r = c.partition(":")
    if t == "str":
        return r
    if t == "float":          # nan / inf: not a number of the grid, written as text
        return float(r)
    import ast
    return ast.literal_eval(r)


def make_sections(kind, overrides=None):
    """(geometry, environment, characteristics) built through the constructors."""
    from pyxel.detectors import (APDCharacteristics, APDGeometry, CCDGeometry, Characteristics, CMOSGeometry,
                                 Environment, MKIDGeometry)
    o = overrides or {}
    g = dict(BASE["geometry"], **o.get("geometry", {}))
    e = dict(BASE["environment"], **o.get("environment", {}))
    c = dict(BASE["characteristics"], **o.get("characteristics", {}))
    geo_cls = {"ccd": CCDGeometry, "cmos": CMOSGeometry, "mkid": MKIDGeometry, "apd": APDGeometry}[kind]
    if kind == "apd":
        c = {k: v for k, v in c.items() if k in APD_CHAR}
        c.update(APD_EXTRA)
        chars = APDCharacteristics(**c)
    else:
        chars = Characteristics(**c)
    return geo_cls(**g), Environment(**e), chars


def make_processor(kind="ccd"):
    from pyxel.detectors import APD, CCD, CMOS, MKID
    from pyxel.pipelines import DetectionPipeline, ModelFunction, Processor
    geo, env, chars = make_sections(kind)
    det = {"ccd": CCD, "cmos": CMOS, "mkid": MKID, "apd": APD}[kind](geometry=geo, environment=env, characteristics=chars)
    pipe = DetectionPipeline(
        # 'm2' exists twice: enabled here, disabled (and addressed by the sweeps) in charge_generation
        photon_collection=[ModelFunction(func="harness.settings.snap", name="m1",
                                         arguments={"a": "init", "b": "init", "opt": {"level": "init", "keep": "init"}}),
                           ModelFunction(func="harness.settings.snap", name="m2", arguments={"z": "init"})],
        charge_generation=[ModelFunction(func="harness.settings.snap", name="m2", enabled=False, arguments={"c": "init"})],
        charge_measurement=[ModelFunction(func="harness.settings.snap", name="watch", arguments={})])
    return Processor(detector=det, pipeline=pipe)


def snapshot(proc, kind) -> dict:
    """{key tuple: canonical value} over every setting of the processor, including attributes
    that should not exist."""
    out = {}
    for section, names in fields(kind).items():
        obj = getattr(proc.detector, section)
        seen = set()
        for attr, v in vars(obj).items():
            name = attr.lstrip("_")
            if name in INTERNAL:
                continue
            if name in names or not attr.startswith("_"):
                out[("detector", section, name)] = canon(v)
                seen.add(name)
    for gname in px.GROUPS:
        grp = getattr(proc.pipeline, gname)
        if not grp:
            continue
        for m in grp.models:
            if m.name == "watch":
                continue
            out[("pipeline", gname, m.name, "enabled")] = canon(m.enabled)
            for a, v in m.arguments.items():
                if isinstance(v, dict):          # the entries of a dictionary-valued argument are settings of their own
                    for k2, v2 in v.items():
                        out[("pipeline", gname, m.name, "arguments", a, k2)] = canon(v2)
                else:
                    out[("pipeline", gname, m.name, "arguments", a)] = canon(v)
            for attr in vars(m):
                if attr not in ("_func_name", "_func", "_name", "enabled", "_arguments"):
                    out[("pipeline", gname, m.name, "NEW", attr)] = canon(repr(vars(m)[attr]))
    return out


def leaves_of(kind):
    ls = [["detector", s, f] for s, names in fields(kind).items() for f in names]
    ls += [["pipeline", "photon_collection", "m1", "arguments", "a"], ["pipeline", "photon_collection", "m1", "arguments", "b"],
           ["pipeline", "photon_collection", "m1", "arguments", "opt", "level"],
           ["pipeline", "photon_collection", "m1", "arguments", "opt", "keep"],
           ["pipeline", "photon_collection", "m1", "enabled"],
           ["pipeline", "photon_collection", "m2", "arguments", "z"], ["pipeline", "photon_collection", "m2", "enabled"],
           ["pipeline", "charge_generation", "m2", "arguments", "c"], ["pipeline", "charge_generation", "m2", "enabled"]]
    return ls


def snap(detector, **kw):
    """Probe: logs a snapshot of the processor that is running it (found on the stack)."""
    f = sys._getframe(1)
    proc = None
    while f is not None:
        obj = f.f_locals.get("self")
        if type(obj).__name__ == "Processor":
            proc = obj
            break
        f = f.f_back
    pm.SINK.emit({"e": "snap", "name": detector.current_running_model_name,
                  "snap": snapshot(proc, pm.SINK.kind) if proc is not None else None})
    detector.photon.array = np.ones((detector.geometry.row, detector.geometry.col))
    detector.image.array = np.ones((detector.geometry.row, detector.geometry.col), dtype=np.uint16)


def run_history(case: dict) -> dict:
    """case = {kind, ops: [{path, key, val | text}]}"""
    import pyxel
    from pyxel.exposure import Exposure, Readout
    from pyxel.observation import Observation, ParameterValues
    from pyxel.run import apply_overrides
    kind = case.get("kind", "ccd")
    proc = make_processor(kind)
    leaves = leaves_of(kind)
    snap0 = snapshot(proc, kind)
    tree0 = [{"key": l, "val": snap0[tuple(l)]} for l in leaves]
    events = []
    for op in case["ops"]:
        path, key = op["path"], list(op["key"])
        text = op.get("text", "")
        value = text if text != "" else decanon(op["val"])
        if op.get("elsewhere"):
            # the same assignment is first made on ANOTHER processor (another detector type) of this process, where
            # the key may well exist: processors are independent, nothing learnt there applies here
            try:
                other = make_processor(op["elsewhere"])
                with warnings.catch_warnings():
                    warnings.simplefilter("ignore")
                    if path == "override":
                        apply_overrides({".".join(key): value}, processor=other, mode=Exposure(readout=Readout(times=[1.0])))
                    else:
                        other.has(".".join(key)) and other.set(".".join(key), value)
            except Exception:
                pass
        before = snapshot(proc, kind)
        out, ran, stored, why = "ok", False, None, ""
        after = None
        with warnings.catch_warnings():
            warnings.simplefilter("ignore")
            try:
                if path == "override":
                    apply_overrides({".".join(key): value}, processor=proc, mode=Exposure(readout=Readout(times=[1.0])))
                    after = snapshot(proc, kind)
                elif path == "setattr":
                    obj = getattr(proc.detector, key[1])
                    # (does the attribute exist - asked of the class: the getter of an optional quantity that was
                    # never given raises)
                    if not (hasattr(type(obj), key[2]) or key[2] in vars(obj)):
                        raise AttributeError(key[2])
                    setattr(obj, key[2], value)
                    after = snapshot(proc, kind)
                elif path == "construct":
                    over = {key[1]: {key[2]: value}}
                    if op.get("with"):        # a second setting given in the same constructor call
                        over.setdefault(op["with"]["key"][1], {})[op["with"]["key"][2]] = decanon(op["with"]["val"])
                    geo, env, chars = make_sections(kind, over)
                    newp = copy.copy(proc)
                    after = dict(before)
                    obj = {"geometry": geo, "environment": env, "characteristics": chars}[key[1]]
                    base = make_sections(kind)
                    bobj = dict(zip(("geometry", "environment", "characteristics"), base))[key[1]]
                    for attr, v in vars(obj).items():
                        name = attr.lstrip("_")
                        if name in fields(kind)[key[1]]:
                            if canon(v) != canon(vars(bobj).get(attr)):
                                after[("detector", key[1], name)] = canon(v)
                    after[tuple(key)] = canon(getattr(obj, key[2]))
                elif path == "yaml":
                    over = {key[1]: {key[2]: value}}
                    if op.get("with"):
                        over.setdefault(op["with"]["key"][1], {})[op["with"]["key"][2]] = decanon(op["with"]["val"])
                    doc = yaml_doc(kind, over)
                    conf = pyxel.loads(doc)
                    p2 = type(proc)(detector=conf.detector, pipeline=proc.pipeline)
                    s2 = snapshot(p2, kind)
                    after = dict(before)
                    for k2, v2 in s2.items():
                        if k2[0] == "detector":
                            after[k2] = v2
                elif path == "sweep":
                    pm.SINK.reset()
                    pm.SINK.kind = kind
                    vals = [value]
                    obs = Observation(parameters=[ParameterValues(key=".".join(key), values=vals)],
                                      readout=Readout(times=[1.0]))
                    try:
                        pyxel.run_mode(obs, proc.detector, proc.pipeline)
                    finally:
                        evs = [e for e in pm.SINK.events if e.get("e") == "snap"]
                        ran = bool(evs)
                    snaps = [e["snap"] for e in evs if e["snap"] is not None]
                    after = snaps[-1] if snaps else None
                    if snapshot(proc, kind) != before:
                        after = None
                        raise AssertionError("the caller's processor changed during a sweep")
                    if after is None:      # nothing could observe the run (e.g. the only probe was disabled)
                        after = dict(before)
                        after[tuple(key)] = canon(eval_like(value))
                else:
                    raise ValueError(path)
            except Exception as e:
                out = "rejected"
                why = f"{type(e).__name__}: {str(e)[:100]}"
                if path in ("override", "setattr"):
                    after = snapshot(proc, kind)
                else:
                    after = dict(before)
        changed = sorted([list(k) for k in set(before) | set(after) if before.get(k) != after.get(k)])
        if out == "ok":
            stored = after.get(tuple(key), {"k": "txt", "c": "MISSING"})
        ev = {"path": path, "key": key, "text": text, "val": op.get("val") or {"k": "txt", "c": ""}, "out": out,
              "changed": changed, "stored": stored or {"k": "txt", "c": ""}, "ran": bool(ran), "why": why}
        if op.get("with"):
            ev["key2"], ev["val2"] = list(op["with"]["key"]), op["with"]["val"]
        events.append(ev)
    disabled = [["pipeline", "charge_generation", "m2"]]
    return {"leaves": leaves, "disabled": disabled, "tree0": tree0, "events": events, "case": case}


def eval_like(value):
    from pyxel.evaluator import eval_entry
    return eval_entry(value) if isinstance(value, str) else value


def yaml_doc(kind, overrides=None, mode="exposure"):
    import yaml
    o = overrides or {}
    g = dict(BASE["geometry"], **o.get("geometry", {}))
    e = dict(BASE["environment"], **o.get("environment", {}))
    c = dict(BASE["characteristics"], **o.get("characteristics", {}))
    if kind == "apd":
        c = {k: v for k, v in c.items() if k in APD_CHAR}
        c.update(APD_EXTRA)
    c = {k: (list(v) if isinstance(v, tuple) else v) for k, v in c.items()}
    doc = {mode: {"readout": {"times": [1.0]}},
           f"{kind}_detector": {"geometry": g, "environment": e, "characteristics": c},
           "pipeline": {"photon_collection": [{"name": "m1", "func": "harness.settings.snap", "enabled": True,
                                               "arguments": {"a": "init", "b": "init"}}]}}
    return yaml.safe_dump(doc, sort_keys=False)
